"""Orchestration library for the lz verification checks.

build harness -> model-check the design (TLC) -> generate histories (TLC walks /
cover, Go-side generators, committed corpus) -> drive the real code -> validate
the recorded traces against the TLA+ envelope (TLC) -> judge -> evidence.

Verdict discipline (DESIGN.md section 5):
  exit 0  everything explored satisfied the property (known findings are printed)
  exit 1  VIOLATION: TLC rejected a trace recorded from the real code, the
          rejection was reproduced by re-executing the script, and it is not a
          listed known finding
  exit 2  infrastructure problem (never a VIOLATION line)
"""
import hashlib, json, os, re, shutil, subprocess, sys, threading, time

VERIF = os.path.dirname(os.path.dirname(os.path.abspath(__file__)))
SPEC = os.path.join(VERIF, 'spec')
HARNESS = os.path.join(VERIF, 'harness')
# The tree under verification. Always /repo for the registered checks; the
# seeded-change tool (bin/seedtest) points it at a scratch worktree with the
# change applied so that several changes can be evaluated in parallel without
# touching /repo.
REPO = os.environ.get('VERIF_REPO', '/repo')

GOENV = dict(GOFLAGS='-mod=mod', GOPROXY='off', GOSUMDB='off', GOTOOLCHAIN='local')


MAX_REPORT = 3


class Infra(Exception):
    pass


def log(*a):
    print(*a, flush=True)


class Ctx:
    def __init__(self, prop, tier, seed):
        self.prop, self.tier, self.seed = prop, tier, seed
        self.t0 = time.time()
        self.work = os.path.join(VERIF, '.work', '%s-%d' % (prop, os.getpid()))
        shutil.rmtree(self.work, ignore_errors=True)
        os.makedirs(self.work)
        self.specdir = os.path.join(self.work, 'spec')
        shutil.copytree(SPEC, self.specdir)
        self.n_tlc = 0
        self.mc_states = 0
        self.mc_transitions = 0
        self.mc_runs = []
        self.tlc_cmds = []
        self.lzdrive = None

    def cleanup(self):
        if not os.environ.get('VERIF_KEEP'):
            shutil.rmtree(self.work, ignore_errors=True)

    def thorough(self):
        return self.tier == 'thorough'


# ----------------------------------------------------------------------------
# building
# ----------------------------------------------------------------------------
def build_harness(ctx):
    """Build lzdrive from /verif/harness against /repo's current working tree
    (replace directive) with the verif build tag."""
    hdir = os.path.join(ctx.work, 'harness')
    shutil.copytree(HARNESS, hdir)
    shutil.copy(os.path.join(REPO, 'go.sum'), os.path.join(hdir, 'go.sum'))
    if REPO != '/repo':
        gm = os.path.join(hdir, 'go.mod')
        txt = open(gm).read().replace('=> /repo', '=> ' + REPO)
        open(gm, 'w').write(txt)
    ctx.work_replays = REPO != '/repo'
    out = os.path.join(ctx.work, 'lzdrive')
    env = dict(os.environ, **GOENV)
    p = subprocess.run(['go', 'build', '-tags', 'verif', '-o', out, './cmd/lzdrive'],
                       cwd=hdir, env=env, stdout=subprocess.PIPE, stderr=subprocess.STDOUT, text=True)
    if p.returncode != 0:
        raise Infra('harness build failed (does /repo still compile?):\n' + p.stdout[-4000:])
    ctx.lzdrive = out
    return out


# ----------------------------------------------------------------------------
# TLC
# ----------------------------------------------------------------------------
def build_race_harness(ctx):
    """lzdrive with the Go race detector (used for the concurrency clause of C13)."""
    hdir = os.path.join(ctx.work, 'harness')
    out = os.path.join(ctx.work, 'lzdrive-race')
    env = dict(os.environ, **GOENV)
    p = subprocess.run(['go', 'build', '-race', '-tags', 'verif', '-o', out, './cmd/lzdrive'],
                       cwd=hdir, env=env, stdout=subprocess.PIPE, stderr=subprocess.STDOUT, text=True)
    if p.returncode != 0:
        raise Infra('race build of the harness failed:\n' + p.stdout[-3000:])
    return out


_TLC_LOCK = threading.Lock()


def tlc(ctx, module, cfg, args=(), env=None, timeout=900, workers=None):
    with _TLC_LOCK:
        ctx.n_tlc += 1
        meta = os.path.join(ctx.work, 'meta%d' % ctx.n_tlc)
    if workers is None:
        workers = '8'
    cmd = ['tlc', '-workers', str(workers), '-metadir', meta, '-config', cfg] + list(args) + [module]
    e = dict(os.environ)
    e['JAVA_TOOL_OPTIONS'] = '-Xss512m'
    if env:
        e.update(env)
    with _TLC_LOCK:
        ctx.tlc_cmds.append(' '.join(cmd[:1] + [a for a in cmd[1:] if not a.startswith(ctx.work)]))
    try:
        p = subprocess.run(cmd, cwd=ctx.specdir, env=e, stdout=subprocess.PIPE, stderr=subprocess.STDOUT,
                           text=True, timeout=timeout)
    except subprocess.TimeoutExpired:
        subprocess.run(['pkill', '-f', meta])
        raise Infra('TLC timed out after %ds: %s' % (timeout, ' '.join(cmd)))
    finally:
        shutil.rmtree(meta, ignore_errors=True)
    return p.returncode, p.stdout


_STATS = re.compile(r'(\d+) states generated, (\d+) distinct states found')


def tlc_mc(ctx, module, cfg, timeout=900, workers='8', args=()):
    """Exhaustive model check of a design-level module. Returns (generated,
    distinct). A failure here is a defect of the specification (or a design
    counterexample that has to be replayed), never a verdict about the code:
    it is reported as an infrastructure error."""
    t = time.time()
    rc, out = tlc(ctx, module, cfg, timeout=timeout, workers=workers, args=args)
    m = _STATS.findall(out)
    if 'Model checking completed. No error has been found.' not in out or not m:
        raise Infra('design model check %s/%s failed:\n%s' % (module, cfg, tail_errors(out)))
    gen, dist = int(m[-1][0]), int(m[-1][1])
    ctx.mc_states += dist
    ctx.mc_transitions += gen
    ctx.mc_runs.append(dict(module=module, cfg=cfg, distinct_states=dist, states_generated=gen,
                            wall_s=round(time.time() - t, 1)))
    log('  MC %s (%s): %d distinct states, %d generated, %.1fs' % (module, cfg, dist, gen, time.time() - t))
    return gen, dist


def tail_errors(out):
    lines = [l for l in out.splitlines() if not re.match(r'^(Semantic|Linting|Parsing|Picked up)', l)]
    return '\n'.join(lines[-60:])[-6000:]


def apalache_inductive(ctx, module, inv='IndInv', init='Init', indinit='IndInit', cinit='ConstInit', timeout=600):
    """Unbounded design-level argument: Init => Inv (length 0) and
    Inv /\\ Next => Inv' (length 1) with Apalache. A failure is a defect of the
    specification (infrastructure error), like a failing TLC design check."""
    t = time.time()
    wd = os.path.join(ctx.work, 'apalache')
    os.makedirs(wd, exist_ok=True)
    shutil.copy(os.path.join(ctx.specdir, module), wd)
    res = []
    for ini, length in ((init, 0), (indinit, 1)):
        cmd = ['apalache-mc', 'check', '--cinit=' + cinit, '--init=' + ini, '--inv=' + inv, '--length=%d' % length, module]
        try:
            p = subprocess.run(cmd, cwd=wd, stdout=subprocess.PIPE, stderr=subprocess.STDOUT, text=True, timeout=timeout)
        except subprocess.TimeoutExpired:
            raise Infra('apalache timed out: ' + ' '.join(cmd))
        ok = 'The outcome is: NoError' in p.stdout
        res.append(dict(cmd=' '.join(cmd), outcome='NoError' if ok else 'Error'))
        if not ok:
            raise Infra('apalache: %s is not inductive in %s:\n%s' % (inv, module, p.stdout[-1500:]))
    shutil.rmtree(wd, ignore_errors=True)
    log('  APALACHE %s: %s inductive for all integer sizes (2 obligations), %.1fs' % (module, inv, time.time() - t))
    return res


_OPS = re.compile(r'^<<"VERIF_OPS", "(.*)">>$')
_HOT = re.compile(r'^<<"VERIF_HOT", "(.*)">>$')


def unquote_tla(s):
    return s.replace('\\"', '"').replace('\\\\', '\\')


def tlc_walks(ctx, module, cfg, num, depth, seed, timeout=600):
    """Random walks (tlc -simulate) of a generation module; returns the maximal
    call histories (lists of call records, the first being 'begin')."""
    rc, out = tlc(ctx, module, cfg, args=['-simulate', 'num=%d' % num, '-depth', str(depth), '-seed', str(seed)],
                  workers='1', timeout=timeout)
    if 'Error:' in out:
        raise Infra('generation walk %s/%s failed:\n%s' % (module, cfg, tail_errors(out)))
    # TLC prints the history of every candidate successor. A walk starts with
    # a line of length 2 (begin + first call); within a walk the history that
    # was actually followed is the longest one.
    hist = []
    best = None
    last_len = 0
    for ln in out.splitlines():
        m = _OPS.match(ln)
        if not m:
            continue
        ops = json.loads(unquote_tla(m.group(1)))
        if len(ops) <= 2 and last_len > 2:
            hist.append(best)
            best = None
        if best is None or len(ops) >= len(best):
            best = ops
        last_len = len(ops)
    if best is not None:
        hist.append(best)
    return hist


def tlc_cover(ctx, module, cfg, timeout=1800, limit=None, seed=0, workers='8'):
    """Exhaustive BFS of a generation module whose ACTION_CONSTRAINT prints the
    history of every generated transition (transition cover). Returns the
    histories (optionally a deterministic sample of `limit`) and the stats."""
    t = time.time()
    rc, out = tlc(ctx, module, cfg, workers=workers, timeout=timeout)
    m = _STATS.findall(out)
    if 'Model checking completed. No error has been found.' not in out or not m:
        raise Infra('cover generation %s/%s failed:\n%s' % (module, cfg, tail_errors(out)))
    hist = []
    hot = []
    seen = set()
    for ln in out.splitlines():
        mm = _OPS.match(ln)
        if mm:
            s = unquote_tla(mm.group(1))
            if s not in seen:
                seen.add(s)
                hist.append(json.loads(s))
            continue
        mm = _HOT.match(ln)
        if mm:
            s = unquote_tla(mm.group(1))
            if s not in seen:
                seen.add(s)
                hot.append(json.loads(s))
    total = len(hist) + len(hot)
    if limit is not None and len(hist) > limit:
        import random
        r = random.Random(seed)
        hist = r.sample(hist, limit)
    if hot:
        # histories the model marks as reaching a delicate state are always kept
        if limit is not None and len(hot) > 2 * limit:
            import random
            hot = random.Random(seed + 1).sample(hot, 2 * limit)
        log('  COVER %s: %d hot histories kept' % (module, len(hot)))
        hist = hot + hist
    gen, dist = int(m[-1][0]), int(m[-1][1])
    ctx.mc_states += dist
    ctx.mc_transitions += gen
    ctx.mc_runs.append(dict(module=module, cfg=cfg, distinct_states=dist, states_generated=gen,
                            histories=total, wall_s=round(time.time() - t, 1), mode='transition cover'))
    log('  COVER %s (%s): %d view states, %d transitions, %d histories (%d used), %.1fs'
        % (module, cfg, dist, gen, total, len(hist), time.time() - t))
    return hist


def tlc_enum(ctx, module, cfg, timeout=1800):
    """Exhaustive enumeration of the initial states of a generation module
    whose invariant prints one operation list per state."""
    t = time.time()
    rc, out = tlc(ctx, module, cfg, workers='1', timeout=timeout)
    m = _STATS.findall(out)
    if 'Model checking completed. No error has been found.' not in out or not m:
        raise Infra('enumeration %s/%s failed:\n%s' % (module, cfg, tail_errors(out)))
    ops = []
    for ln in out.splitlines():
        mm = _OPS.match(ln)
        if mm:
            ops.extend(json.loads(unquote_tla(mm.group(1))))
    gen, dist = int(m[-1][0]), int(m[-1][1])
    ctx.mc_states += dist
    ctx.mc_transitions += gen
    ctx.mc_runs.append(dict(module=module, cfg=cfg, distinct_states=dist, states_generated=gen,
                            wall_s=round(time.time() - t, 1), mode='enumeration of grid points, 3 invariants each'))
    log('  ENUM %s (%s): %d grid points, %.1fs' % (module, cfg, dist, time.time() - t))
    return ops


# ----------------------------------------------------------------------------
# scripts, driving, validation
# ----------------------------------------------------------------------------
def write_ndjson(path, objs):
    with open(path, 'w') as f:
        for o in objs:
            f.write(json.dumps(o, separators=(',', ':')) + '\n')


def read_ndjson(path):
    out = []
    with open(path) as f:
        for ln in f:
            ln = ln.strip()
            if ln:
                out.append(json.loads(ln))
    return out


def go_gen(ctx, gen, n, seed, extra=()):
    path = os.path.join(ctx.work, 'gen-%s-%d.ndjson' % (gen, seed))
    p = subprocess.run([ctx.lzdrive, 'gen', gen, '-seed', str(seed), '-n', str(n), '-tier', ctx.tier,
                        '-out', path] + list(extra), stdout=subprocess.PIPE, stderr=subprocess.STDOUT, text=True)
    if p.returncode != 0:
        raise Infra('lzdrive gen %s failed: %s' % (gen, p.stdout[-2000:]))
    return read_ndjson(path)


def drive(ctx, scripts, name='trace', call_timeout='3s', binary=None, race_out=None):
    spath = os.path.join(ctx.work, name + '.scripts.ndjson')
    tpath = os.path.join(ctx.work, name + '.ndjson')
    write_ndjson(spath, scripts)
    env = dict(os.environ, GOMEMLIMIT='6GiB')
    if race_out is not None:
        env['GORACE'] = 'exitcode=0 log_path=' + race_out
    try:
        p = subprocess.run([binary or ctx.lzdrive, 'run', '-scripts', spath, '-out', tpath, '-call-timeout', call_timeout],
                           stdout=subprocess.PIPE, stderr=subprocess.STDOUT, text=True, env=env, timeout=3000)
    except subprocess.TimeoutExpired:
        raise Infra('driver did not finish')
    if p.returncode != 0:
        raise Infra('driver failed (exit %d): %s' % (p.returncode, p.stdout[-3000:]))
    return tpath


_BAD = re.compile(r'^<<"VERIF_BAD", "(.*)">>$')
_LINES = re.compile(r'^<<"VERIF_LINES", (-?\d+), (\d+)>>$')


def validate(ctx, trace_module, trace_path, cfg=None, timeout=1800, extra_env=None):
    """Run the TLA+ trace specification over a recorded trace file. Returns
    the list of rejected traces [{tid, line, why}].  Large files are cut at
    trace boundaries ("begin" events) into shards validated by parallel TLC
    processes (every monitor judges a trace on its own); line numbers are
    mapped back to the whole file."""
    nlines = sum(1 for _ in open(trace_path))
    if nlines == 0:
        return []
    size = os.path.getsize(trace_path)
    nshards = 1
    if nlines >= 600 or size >= 1 << 20:
        nshards = min(8, max(2, nlines // 300, size // (512 << 10)))
    if nshards == 1:
        return _validate_one(ctx, trace_module, trace_path, cfg, timeout, extra_env)
    # cut at "begin" lines, balancing bytes
    target = size / nshards
    shards = []            # (path, first line - 1)
    with _TLC_LOCK:
        ctx.n_tlc += 1
        base = os.path.join(ctx.work, 'shard%d' % ctx.n_tlc)
    out, cur, start = None, 0, 0
    with open(trace_path) as f:
        for i, ln in enumerate(f):
            if out is None or (cur >= target and len(ln) < 4000 and '"op":"begin"' in ln and len(shards) < nshards):
                if out:
                    out.close()
                path = '%s-%d.ndjson' % (base, len(shards))
                shards.append((path, i))
                out = open(path, 'w')
                cur = 0
            out.write(ln)
            cur += len(ln)
    if out:
        out.close()
    import concurrent.futures
    bad = []
    with concurrent.futures.ThreadPoolExecutor(max_workers=len(shards)) as ex:
        futs = [(off, ex.submit(_validate_one, ctx, trace_module, path, cfg, timeout, extra_env)) for path, off in shards]
        for off, fu in futs:
            for b in fu.result():
                b = dict(b)
                b['line'] = b['line'] + off
                bad.append(b)
    for path, _ in shards:
        try:
            os.remove(path)
        except OSError:
            pass
    bad.sort(key=lambda b: b['line'])
    return bad


def _validate_one(ctx, trace_module, trace_path, cfg=None, timeout=1800, extra_env=None):
    if cfg is None:
        cfg = trace_module + '.cfg'
    nlines = sum(1 for _ in open(trace_path))
    if nlines == 0:
        return []
    env = {'VERIF_TRACE': trace_path}
    if extra_env:
        env.update(extra_env)
    rc, out = tlc(ctx, trace_module + '.tla', cfg, env=env, workers='1', timeout=timeout)
    bad, lines = None, None
    for ln in out.splitlines():
        m = _BAD.match(ln)
        if m:
            bad = json.loads(unquote_tla(m.group(1)))
        m = _LINES.match(ln)
        if m:
            lines = (int(m.group(1)), int(m.group(2)))
    if bad is None or lines is None or 'No error has been found' not in out:
        raise Infra('trace validation with %s failed:\n%s' % (trace_module, tail_errors(out)))
    if lines[0] != lines[1] or lines[1] != nlines:
        raise Infra('trace validation consumed %d of %d lines (file has %d)' % (lines[0], lines[1], nlines))
    return bad


def split_traces(trace_path):
    """tid -> (first line number (1-based), events)"""
    res = {}
    cur = None
    with open(trace_path) as f:
        for i, ln in enumerate(f, 1):
            ev = json.loads(ln)
            if ev.get('op') == 'begin':
                cur = ev['tid']
                res[cur] = (i, [])
            if cur is not None:
                res[cur][1].append(ev)
    return res


# ----------------------------------------------------------------------------
# known findings
# ----------------------------------------------------------------------------
def load_known():
    p = os.path.join(VERIF, 'known_findings.json')
    if not os.path.exists(p):
        return []
    return json.load(open(p)).get('findings', [])


def _parser_stream(prev):
    """Abstract parser state reconstructed from the recorded events before the
    rejected one (helpers for witness predicates): bytes accepted since the
    last Reset, parse position, discarded bytes, Parse(nil) seen."""
    inp, w, off0, nils = [], 0, 0, False
    for e in prev:
        op = e.get('op')
        if op == 'write':
            inp += e['p'][:max(e.get('n', 0), 0)]
        elif op == 'readfrom':
            for c in e.get('calls', []):
                inp += c[3]
        elif op in ('parse', 'parsenil'):
            w += e.get('n', 0)
            nils = nils or op == 'parsenil'
        elif op == 'shrink':
            off0 += e.get('delta', 0)
        elif op == 'reset' and e.get('err') == '':
            inp, w, off0, nils = list(e.get('data') or []), 0, 0, False
    return dict(inp=inp, w=w, off0=off0, nils=nils)


def _gsap_sorted_extent(prev, blk):
    """Length (in stream coordinates) of the data the suffix array of GSAP covers
    when the rejected Parse runs: gsap sorts the whole buffer whenever a block
    reaches beyond the sorted part; Shrink (delta > 0) and Reset drop the array.
    None if the history contains a Parse(nil) (the witness then stays broad)."""
    inp_len, w, off0, srt = 0, 0, 0, 0
    for e in prev:
        op = e.get('op')
        if op == 'write':
            inp_len += max(e.get('n', 0), 0)
        elif op == 'readfrom':
            inp_len += sum(len(c[3]) for c in e.get('calls', []))
        elif op == 'parsenil':
            return None
        elif op == 'parse':
            nb = min(blk, inp_len - w) if blk > 0 else inp_len - w
            if nb > 0 and w + nb > srt:
                srt = inp_len
            w += e.get('n', 0)
        elif op == 'shrink' and e.get('delta', 0) > 0:
            srt = 0
        elif op == 'reset' and e.get('err') == '':
            inp_len, w, off0, srt = len(e.get('data') or []), 0, 0, 0
    nb = min(blk, inp_len - w) if blk > 0 else inp_len - w
    if nb > 0 and w + nb > srt:
        srt = inp_len
    return srt


def _distant_equal_run(prev, n, wnd, mm, blk=0):
    """Witness of known finding D18.  True iff the block of n bytes at the parse
    position is a run of one byte c and the situation in which the pinned GSAP
    fails is present: GSAP looks at the two suffix-array neighbours of a
    position only; inside a run the neighbour that would give a match (the
    position in front, one byte more of the run) is displaced when an earlier
    run of c, WindowSize or more bytes back, contains a position with exactly
    the same remaining run length K (K counted in the data the suffix array
    covers) - i.e. when that earlier run is at least K bytes long.  An equal
    run that is SHORTER than K cannot displace the neighbour: a block of
    literals in that situation is not D18 and is reported as a violation.
    Without a reliable K (Parse(nil) in the history, blk unknown) the broad
    form (an equal run of >= mm bytes beyond the window) is used."""
    st = _parser_stream(prev)
    inp, w, off0 = st['inp'], st['w'], st['off0']
    b = inp[w:w + n]
    if not b or any(x != b[0] for x in b):
        return False
    c = b[0]
    srt = _gsap_sorted_extent(prev, blk) if blk else None
    need = mm
    if srt is not None and srt >= w + n:
        k = 0
        while w + k < srt and inp[w + k] == c:
            k += 1
        # the first mm+1 positions of the block must all fail for the block to
        # carry more than mm literals; the last of them has K - mm bytes left
        need = max(mm, k - mm)
    j = off0
    lim = w - wnd + 1
    while j < lim:
        if inp[j] != c:
            j += 1
            continue
        r = j
        while r < len(inp) and r < w and inp[r] == c:
            r += 1
        if r - j >= need:
            return True
        j = r
    return False


def match_known(known, prop, why, ev, begin, prev):
    """A rejected event matches an open known finding iff the property, one of
    the broken rules and the entry's witness predicate (a Python expression
    over ev = the rejected event, cfg = the trace's begin event, prev = the
    events before it) all match."""
    for k in known:
        if k.get('status') != 'open':
            continue
        if prop not in k.get('properties', [k.get('property')]):
            continue
        if not set(k.get('rules', [])) & set(why):
            continue
        try:
            ok = eval(k.get('witness', 'True'), {'__builtins__': {}},
                      dict(ev=ev, cfg=begin, prev=prev, len=len, any=any, all=all, max=max, min=min, sum=sum,
                           set=set, str=str, int=int, parser_state=_parser_stream,
                           distant_equal_run=_distant_equal_run))
        except Exception:
            ok = False
        if ok:
            return k
    return None


# ----------------------------------------------------------------------------
# judging
# ----------------------------------------------------------------------------
def owned(prop, why, owners):
    """rules of `why` that the property under check owns"""
    pre = owners.get(prop, [prop + '.'])
    return [r for r in why if any(r.startswith(p) for p in pre)]


def judge(ctx, trace_module, scripts, trace_path, bad, owners, revalidate=True, trace_cfg=None, extra_env=None,
          retries=1):
    """Turn the rejected traces into KNOWN-FINDING / VIOLATION / foreign.
    Returns dict(violations=[paths], known=[...], foreign=n)."""
    res = dict(violations=[], known=[], foreign=0, foreign_rules={})
    if not bad:
        return res
    known = load_known()
    traces = split_traces(trace_path)
    by_tid = {s['tid']: s for s in scripts}
    known_printed = set()
    judged = set()     # traces for which an owned rejection has been judged already
    for b in bad:
        tid, line, why = b['tid'], b['line'], b['why']
        mine = owned(ctx.prop, why, owners)
        if mine and tid in judged:
            continue   # later failures of the same trace follow from the first one
        if mine:
            judged.add(tid)
        first, evs = traces[tid]
        idx = line - first
        ev, begin, prev = evs[idx], evs[0], evs[1:idx]
        if not mine:
            res['foreign'] += 1
            for r in why:
                res['foreign_rules'][r] = res['foreign_rules'].get(r, 0) + 1
            continue
        k = match_known(known, ctx.prop, mine, ev, begin, prev)
        if k is not None:
            res['known'].append(dict(id=k['id'], tid=tid, rules=mine))
            if k['id'] not in known_printed:
                known_printed.add(k['id'])
                log('KNOWN-FINDING: property=%s %s: %s' % (ctx.prop, k['id'], k['what']))
            continue
        # candidate violation: reproduce by re-executing the script alone
        # (only the first few are reproduced and reported in full)
        if len(res['violations']) >= MAX_REPORT:
            res['more_violations'] = res.get('more_violations', 0) + 1
            continue
        script = by_tid.get(tid)
        if script is None:
            raise Infra('rejected trace %s has no script' % tid)
        if revalidate:
            # scripts that run instances concurrently depend on the Go
            # scheduler: they get several attempts to show the rejection again
            again = []
            for attempt in range(retries if script.get('cfg', {}).get('conc') else 1):
                t2 = drive(ctx, [script], name='replay-' + hashlib.sha1(tid.encode()).hexdigest()[:10],
                           call_timeout='20s')
                bad2 = validate(ctx, trace_module, t2, cfg=trace_cfg, extra_env=extra_env)
                again = [x for x in bad2 if owned(ctx.prop, x['why'], owners)]
                if again:
                    break
            if not again:
                raise Infra('rejection of trace %s (%s) was not reproduced on re-execution' % (tid, why))
        path = write_replay(ctx, script, evs, idx, mine, why)
        res['violations'].append(path)
        log('VIOLATION property=%s replay=%s' % (ctx.prop, path))
        log('  trace %s event %d (%s) breaks %s' % (tid, idx, ev.get('op'), ','.join(mine)))
    if res.get('more_violations'):
        log('  ... and %d more rejected traces breaking %s (not reproduced individually)'
            % (res['more_violations'], ctx.prop))
    return res


def write_replay(ctx, script, evs, idx, mine, why):
    d = os.path.join(VERIF, 'replays', ctx.prop)
    if getattr(ctx, 'work_replays', False):
        d = os.path.join('/tmp', 'seed-replays', ctx.prop)
    os.makedirs(d, exist_ok=True)
    body = dict(property=ctx.prop, rules=mine, all_broken_rules=why, rejected_event_index=idx,
                rejected_event=evs[idx], script=script, trace=evs[:idx + 1])
    h = hashlib.sha1(json.dumps(script, sort_keys=True).encode()).hexdigest()[:12]
    path = os.path.join(d, h + '.json')
    json.dump(body, open(path, 'w'), indent=1)
    return path


# ----------------------------------------------------------------------------
# evidence
# ----------------------------------------------------------------------------
def claimed_level(prop):
    try:
        m = json.load(open(os.path.join(VERIF, 'MANIFEST.json')))
        for c in m['checks']:
            if c['property_id'] == prop:
                return c['level_claimed']['category']
    except Exception:
        pass
    return 'model_checking'


def write_evidence(ctx, coverage, assumptions, violations, level=None):
    os.makedirs(os.path.join(VERIF, 'evidence'), exist_ok=True)
    if level is None:
        level = claimed_level(ctx.prop)
    cov = dict(coverage)
    if ctx.mc_states > 0 and ctx.mc_transitions > 0:
        # design-level model checking done by this invocation
        cov.setdefault('states', ctx.mc_states)
        cov.setdefault('transitions', ctx.mc_transitions)
    cov['design_model_runs'] = ctx.mc_runs
    cov['tlc_invocations'] = ctx.tlc_cmds
    ev = dict(property_id=ctx.prop, tier=ctx.tier, seed=ctx.seed, level=level, coverage=cov,
              assumptions=assumptions, wall_s=round(time.time() - ctx.t0, 1), violations=violations)
    path = os.path.join(VERIF, 'evidence', ctx.prop + '.json')
    if getattr(ctx, 'work_replays', False):   # scratch tree: do not touch the committed evidence
        path = os.path.join(ctx.work, 'evidence-' + ctx.prop + '.json')
    tmp = path + '.tmp'
    json.dump(ev, open(tmp, 'w'), indent=1)
    os.replace(tmp, path)
    return path


def sample_traces(trace_path, n=2, maxev=12):
    out = []
    for tid, (first, evs) in split_traces(trace_path).items():
        if len(evs) > 3:
            out.append([clip(e) for e in evs[:maxev]])
        if len(out) >= n:
            break
    return out


def clip(e):
    r = {}
    for k, v in e.items():
        if isinstance(v, list) and len(v) > 40:
            r[k] = v[:40] + ['...(%d)' % len(v)]
        else:
            r[k] = v
    return r
