"""Per-property check definitions (which specification, which generators, which
rules a property owns)."""
import copy, glob, hashlib, json, os, random, time
import vlib
from vlib import Infra, log

# rule-name prefixes a property's check reports (a failing rule outside this
# set is "foreign": some other property's check reports it)
OWNERS = {
    'C04': ['C04.'],
    'C05': ['C05.'],
    'C17': ['C17.'],
    'C06': ['C06.'],
    'C07': ['C07.'],
    'C18': ['C18.'],
    'C01': ['C01.'],
    'C02': ['C02.'],
    'C03': ['C03.'],
    'C11': ['C11.'],
    'C12': ['C12.'],
    'C14': ['C14.'],
    'C15': ['C15.'],
    'C19': ['C19.'],
    'C08': ['C08.'],
    'C13': ['C13.'],
    'C16': ['C16.'],
    'C20': ['C20.'],
    'C09': ['C09.'],
    'C10': ['C10.'],
}


def ops_to_script(tid, comp, ops, tags=()):
    begin = ops[0]
    cfg = {k: v for k, v in begin.items() if k != 'op'}
    return dict(tid=tid, comp=comp, cfg=cfg, ops=ops[1:], tags=list(tags))


def corpus_scripts(comp):
    out = []
    for p in sorted(glob.glob(os.path.join(vlib.VERIF, 'corpus', comp + '*.ndjson'))):
        for s in vlib.read_ndjson(p):
            s.setdefault('tags', []).append('corpus')
            out.append(s)
    return out


def script_hash(s):
    return hashlib.sha1(json.dumps([s['comp'], s['cfg'], s['ops']], sort_keys=True).encode()).hexdigest()


def binding_selftest(ctx, trace_module, trace_path, mutate, cfg=None, extra_env=None, skip=()):
    """Demonstrate that the specification is bound to the recording: corrupt one
    recorded field / delete one event of accepted traces; TLC must reject each
    mutant exactly there. A mutant that is accepted is an infrastructure error
    (the trace specification would be vacuous)."""
    traces = vlib.split_traces(trace_path)
    muts = []
    for tid, (first, evs) in traces.items():
        if tid in skip:      # only traces the specification accepted are mutated
            continue
        for kind, m in mutate(evs):
            m = copy.deepcopy(m)
            m[0]['tid'] = 'selftest-%s-%s' % (kind, tid)
            muts.append((kind, m))
        if len(muts) >= 6:
            break
    if not muts:
        return dict(mutants=0, rejected=0)
    path = os.path.join(ctx.work, 'selftest.ndjson')
    vlib.write_ndjson(path, [e for _, m in muts for e in m])
    bad = vlib.validate(ctx, trace_module, path, cfg=cfg, extra_env=extra_env)
    badt = {b['tid'] for b in bad}
    miss = [m[0]['tid'] for _, m in muts if m[0]['tid'] not in badt]
    if miss:
        raise Infra('binding self-test: corrupted traces were accepted by %s: %s' % (trace_module, miss[:3]))
    return dict(mutants=len(muts), rejected=len(muts), kinds=sorted({k for k, _ in muts}))


# ----------------------------------------------------------------------------
# DecoderBuffer family: C04 C05 C17
# ----------------------------------------------------------------------------
def dbuf_mutants(evs):
    """corrupt a data byte / delete a state-changing event"""
    if any(e['op'] in ('panic', 'timeout', 'livelock') for e in evs):
        return
    for i, e in enumerate(evs):
        if i == 0 or 'data' not in e:
            continue
        if e.get('data') and e['op'] in ('dwrite', 'wblock', 'wmatch', 'wbyte') and e.get('err') == '':
            m = copy.deepcopy(evs)
            m[i]['data'][-1] = (m[i]['data'][-1] + 1) % 256
            yield 'flipbyte', m
            if i + 1 < len(evs) - 1 and (e.get('n', 1) or 0) > 0 and 'data' in evs[i + 1] \
                    and evs[i + 1]['off'] >= e['off']:
                m2 = copy.deepcopy(evs)
                del m2[i]
                yield 'delevent', m2
            return


def dbuf_features(evs):
    f = set()
    lo = 0
    for e in evs[1:]:
        if 'data' not in e:
            if e['op'] in ('panic', 'timeout'):
                f.add(e['op'])
            continue
        nlo = e['off'] - len(e['data'])
        if nlo > lo:
            f.add('discard')
            if e['op'] == 'wblock':
                f.add('discard_in_wblock')
        lo = nlo
        if e.get('err', '').startswith('other'):
            f.add('rejected')
        if e.get('err') == 'full':
            f.add('full')
        if e['op'] == 'wmatch' and e['err'] == '' and e['m'] > e['o'] > 0:
            f.add('overlap')
        if e['op'] == 'wblock' and e['err'] == '' and any(s[1] > s[2] > 0 for s in e['seqs']):
            f.add('overlap')
        if e['op'] == 'wblock' and e['err'] != '' and e['k'] > 0:
            f.add('partial_block')
        if 0 < e['r'] < len(e['data']):
            f.add('read_mid')
        if e['op'] == 'writeto' and e['werr'] != '':
            f.add('writer_fault')
    return f


def run_dbuf(ctx, fam):
    t = ctx.thorough()
    extra = {}
    if ctx.prop == 'C04':
        log('[C04] unbounded arithmetic of the shrink policy (Apalache, inductive invariant of DecoderRetain.tla)')
        extra['apalache_inductive_invariant'] = vlib.apalache_inductive(ctx, 'DecoderRetain.tla')
    log('[%s] design model check (DecoderBufImpl refines DecoderBuf envelope)' % ctx.prop)
    vlib.tlc_mc(ctx, 'DecoderBufMC.tla', 'DecoderBufMC_T.cfg' if t else 'DecoderBufMC.cfg', workers='16')
    scripts = []
    log('[%s] generating histories' % ctx.prop)
    if t:
        hist = vlib.tlc_cover(ctx, 'DecoderBufMC.tla', 'DecoderBufCover.cfg', limit=6000, seed=ctx.seed)
        for i, ops in enumerate(hist):
            scripts.append(ops_to_script('dbuf-cover-%d' % i, 'dbuf', ops, ['tlc-cover']))
    walks = vlib.tlc_walks(ctx, 'DecoderBufMC.tla', 'DecoderBufWalk.cfg', num=(1500 if t else 250), depth=30,
                           seed=ctx.seed)
    for i, ops in enumerate(walks):
        scripts.append(ops_to_script('dbuf-walk-%d-%d' % (ctx.seed, i), 'dbuf', ops, ['tlc-walk']))
    scripts += vlib.go_gen(ctx, 'dbuf', 3000 if t else 400, ctx.seed)
    scripts += corpus_scripts('dbuf')
    return finish(ctx, fam, scripts, 'DecoderBuf_Trace', dbuf_mutants, dbuf_features, extra_cov=extra)


def finish(ctx, fam, scripts, trace_module, mutants, features, trace_cfg=None, extra_env=None,
           extra_cov=None, call_timeout='3s', retries=1, keep_trace=False):
    log('[%s] driving %d scripts through the real code' % (ctx.prop, len(scripts)))
    tpath = vlib.drive(ctx, scripts, call_timeout=call_timeout)
    nev = sum(1 for _ in open(tpath))
    log('[%s] validating %d recorded events against %s' % (ctx.prop, nev, trace_module))
    bad = vlib.validate(ctx, trace_module, tpath, cfg=trace_cfg, extra_env=extra_env)
    res = vlib.judge(ctx, trace_module, scripts, tpath, bad, OWNERS, trace_cfg=trace_cfg, extra_env=extra_env,
                     retries=retries)
    st = binding_selftest(ctx, trace_module, tpath, mutants, cfg=trace_cfg, extra_env=extra_env,
                          skip={b['tid'] for b in bad})
    traces = vlib.split_traces(tpath)
    feat = {}
    nontrivial = set()
    by_tid = {s['tid']: s for s in scripts}
    for tid, (first, evs) in traces.items():
        fs = features(evs)
        for f in fs:
            feat[f] = feat.get(f, 0) + 1
        if fs and tid in by_tid:
            nontrivial.add(vlib_hash(by_tid[tid]))
    srcs = {}
    for s in scripts:
        for tg in s.get('tags', [])[:1]:
            srcs[tg] = srcs.get(tg, 0) + 1
    cov = dict(
        traces_validated_against_impl=len(traces),
        evaluations=nev,
        distinct_nontrivial=len(nontrivial),
        rule=fam['rule'],
        script_sources=srcs,
        deep_path_counters=feat,
        rejected_traces=len({b['tid'] for b in bad}),
        rejected_events=len(bad),
        rejected_foreign=res['foreign'],
        foreign_rules=res['foreign_rules'],
        known_findings_hit=sorted({k['id'] for k in res['known']}),
        binding_selftest=st,
        samples=vlib.sample_traces(tpath),
        exhaustive=False,
    )
    if extra_cov:
        cov.update(extra_cov)
    if keep_trace:
        ctx.last_trace = tpath
    if fam.get('_post'):
        d, tot = fam['_post'](tpath)
        cov['drift_model_vs_code'] = dict(grid_points=tot, disagreements=d)
        if d:
            log('DRIFT: the Verify model of Config.tla disagrees with the code on %d of %d grid points (informational)' % (d, tot))
    if fam.get('_drift'):
        dr = fam['_drift'](scripts, traces)
        cov['drift_model_vs_code'] = dr
        if dr.get('disagreements'):
            log('DRIFT: the implementation-shaped model predicted other results than the code produced in %d of %d compared calls (informational; first: %s)'
                % (dr['disagreements'], dr['compared'], dr.get('first')))
    if getattr(ctx, 'parts', None) is not None:
        ctx.parts.append((cov, fam['assumptions'], len(res['violations'])))
    else:
        vlib.write_evidence(ctx, cov, fam['assumptions'], len(res['violations']))
    if res.get('foreign_rules'):
        log('[%s] rules of other properties / informational rules that rejected events: %s'
            % (ctx.prop, ', '.join('%s x%d' % kv for kv in sorted(res['foreign_rules'].items()))))
    log('[%s] %d traces, %d events, %d rejected (%d foreign, %d known), %d violations; %.0fs'
        % (ctx.prop, len(traces), nev, len(bad), res['foreign'], len(res['known']), len(res['violations']),
           time.time() - ctx.t0))
    return 1 if res['violations'] else 0


def vlib_hash(s):
    return script_hash(s)


def merge_cov(parts):
    out = {}
    for cov, _, _ in parts:
        for k, v in cov.items():
            if k not in out:
                out[k] = copy.deepcopy(v)
            elif isinstance(v, bool):
                out[k] = out[k] and v
            elif isinstance(v, int):
                out[k] += v
            elif isinstance(v, dict) and isinstance(out[k], dict):
                for kk, vv in v.items():
                    if isinstance(vv, int) and isinstance(out[k].get(kk), int):
                        out[k][kk] += vv
                    else:
                        out[k].setdefault(kk, vv)
            elif isinstance(v, list) and isinstance(out[k], list):
                out[k] = out[k] + [x for x in v if x not in out[k]]
            elif isinstance(v, str) and isinstance(out[k], str) and v != out[k]:
                out[k] = out[k] + ' || ' + v
    return out


def run_multi(ctx, fam):
    """A property decided on several components: run each part, merge the
    evidence, fail if any part fails."""
    ctx.parts = []
    rcs = []
    for sub in fam['parts']:
        rcs.append(sub['run'](ctx, sub))
    parts = ctx.parts
    ctx.parts = None
    cov = merge_cov(parts)
    assumptions = []
    for _, a, _ in parts:
        assumptions += [x for x in a if x not in assumptions]
    vlib.write_evidence(ctx, cov, assumptions, sum(v for _, _, v in parts))
    return 1 if any(r == 1 for r in rcs) else (2 if any(r == 2 for r in rcs) else 0)


DBUF_ASSUME = [
    'TLC evaluates the TLA+ envelope correctly; the Go recorder logs arguments, results and the exported fields Data/R/Off faithfully (binding self-test: corrupted/deleted events are rejected)',
    'uint32 fields are saturated at 2^29 in recordings (TLC integers are 32 bit); recorded streams are shorter than that',
    'WindowSize 0 cannot be obtained through Init (0 means default 8 MiB): model-checked only',
]


COMP_TRACE = {'bitset': 'Bitset_Trace', 'e2e': 'E2E_Trace', 'suffix': 'Suffix_Trace', 'config': 'Config_Trace', 'tworun': 'TwoRun_Trace', 'dbuf': 'DecoderBuf_Trace', 'dec': 'Decoder_Trace', 'parser': 'Parser_Trace', 'wrap': 'Wrap_Trace'}


def replay(ctx, fam, path):
    body = json.load(open(path))
    script = body['script']
    tpath = vlib.drive(ctx, [script], name='replay')
    tm = COMP_TRACE.get(script.get('comp'), fam.get('trace_module'))
    env = {'VERIF_C11': '1' if ctx.prop == 'C11' else '0', 'VERIF_C12': '1' if ctx.prop == 'C12' else '0'}
    bad = vlib.validate(ctx, tm, tpath, cfg=fam.get('trace_cfg'), extra_env=env)
    mine = [b for b in bad if vlib.owned(ctx.prop, b['why'], OWNERS)]
    for ev in vlib.read_ndjson(tpath):
        print(json.dumps(vlib.clip(ev)))
    if mine:
        log('VIOLATION property=%s replay=%s' % (ctx.prop, path))
        log('  rules: %s at line %d' % (mine[0]['why'], mine[0]['line']))
        return 1
    log('replay accepted: the recorded script no longer violates %s' % ctx.prop)
    return 0


# ----------------------------------------------------------------------------
# Decoder family: C06 C07 C18
# ----------------------------------------------------------------------------
def dec_ops_to_script(tid, ops, tags=()):
    """TLC histories of Decoder.tla interleave API calls with the writer's
    choices ("w" entries): the latter become the script's writer schedule."""
    begin = ops[0]
    cfg = {k: v for k, v in begin.items() if k != 'op'}
    sched, calls = [], []
    for o in ops[1:]:
        if o['op'] == 'w':
            sched.append([o['accept'], 1 if o['fail'] else 0])
        else:
            o = dict(o)
            if o['op'] != 'dec.reset':
                o['retry'] = True
            calls.append(o)
    calls.append(dict(op='dec.flush', retry=True))
    cfg['wsched'] = sched
    return dict(tid=tid, comp='dec', cfg=cfg, ops=calls, tags=list(tags))


def dec_mutants(evs):
    if any(e['op'] in ('panic', 'timeout', 'livelock') for e in evs):
        return
    for i, e in enumerate(evs):
        if i == 0:
            continue
        if e['op'] in ('dec.write', 'dec.wblock') and e.get('wcalls'):
            for j, wc in enumerate(e['wcalls']):
                if wc[0]:
                    m = copy.deepcopy(evs)
                    m[i]['wcalls'][j][0][0] = (wc[0][0] + 1) % 256
                    yield 'flipbyte', m
                    return
    for i, e in enumerate(evs):
        if e['op'] == 'dec.write' and e.get('n', 0) > 0 and i + 2 < len(evs) \
                and not any(x['op'] == 'dec.reset' for x in evs[i:]) \
                and any(x['op'] == 'dec.flush' and x['err'] == '' for x in evs[i:]):
            m = copy.deepcopy(evs)
            del m[i]
            yield 'delevent', m
            return


def dec_features(evs):
    f = set()
    B, W = evs[0]['B'], evs[0]['W']
    for e in evs[1:]:
        if e['op'] in ('panic', 'timeout', 'livelock'):
            f.add(e['op'])
            continue
        wc = e.get('wcalls') or []
        if any(c[2] != '' for c in wc):
            f.add('writer_fault')
            if any(c[2] != '' and 0 < c[1] < len(c[0]) for c in wc):
                f.add('short_write')
        if len(wc) >= 2:
            f.add('multi_flush')
        if e['op'] == 'dec.write' and e.get('n', 0) > B - W:
            f.add('write_gt_free')
        if e['op'] == 'dec.write' and e.get('n', 0) > B:
            f.add('write_gt_buffer')
        if e['op'] == 'dec.wblock':
            if e['err'] == 'full':
                f.add('refused_full')
            if e['err'].startswith('other'):
                f.add('rejected')
            if any(s[0] + s[1] > B - W for s in e['seqs'][:e['k']]):
                f.add('seq_gt_free')
            if e['err'] == 'writer' and (e['k'] > 0 or e['l'] > 0):
                f.add('fault_mid_block')
        if B < 2 * W:
            f.add('B_lt_2W')
    return f


def run_dec(ctx, fam):
    t = ctx.thorough()
    log('[%s] design model check (Decoder retry loops over DecoderBufImpl)' % ctx.prop)
    if ctx.prop == 'C06':
        vlib.tlc_mc(ctx, 'Decoder.tla', 'DecoderLive_chunk.cfg' if t else 'DecoderLiveQ.cfg', workers='16')
    else:
        vlib.tlc_mc(ctx, 'Decoder.tla', 'DecoderSafe.cfg' if t else 'DecoderSafeQ.cfg', workers='16')
    scripts = []
    log('[%s] generating histories' % ctx.prop)
    walks = vlib.tlc_walks(ctx, 'Decoder.tla', 'DecoderWalk.cfg', num=(1200 if t else 200), depth=60, seed=ctx.seed)
    for i, ops in enumerate(walks):
        scripts.append(dec_ops_to_script('dec-walk-%d-%d' % (ctx.seed, i), ops, ['tlc-walk']))
    scripts += vlib.go_gen(ctx, 'dec', 4000 if t else 500, ctx.seed)
    scripts += corpus_scripts('dec')
    return finish(ctx, fam, scripts, 'Decoder_Trace', dec_mutants, dec_features)


DEC_ASSUME = [
    'TLC evaluates the DecoderEnv envelope correctly; the recorder logs every API call with its results and every writer call (offered bytes, accepted count, error) in call order',
    'the destination writer conforms to io.Writer (a short write returns an error); a writer returning (0, nil) for ever is outside the property',
    'termination on the real code is observed by repeated-state detection (8 consecutive empty writer calls inside one API call) and a 3 s watchdog per call',
    'uint32 fields are saturated at 2^29 in recordings',
]


def e2e_mutants(evs):
    if any(e['op'] in ('panic', 'timeout', 'livelock') for e in evs):
        return
    if any(e['op'].startswith('dec.') and e.get('err') not in ('', 'writer') for e in evs[1:]):
        return
    for i, e in enumerate(evs):
        if e['op'] == 'dec.wblock' and e['err'] == '' and e['lits'] and any(
                x['op'] == 'dec.flush' and x['err'] == '' and all(c[2] == '' for c in x['wcalls']) for x in evs[i:]):
            m = copy.deepcopy(evs)
            m[i]['lits'][0] = (m[i]['lits'][0] + 1) % 256
            yield 'flipbyte', m
            return


def e2e_features(evs):
    f = set()
    W, B = evs[0]['W'], evs[0]['B']
    kind = evs[0]['c']['kind']
    for e in evs[1:]:
        op = e['op']
        if op in ('panic', 'timeout', 'livelock'):
            f.add(op)
        elif op == 'dec.wblock':
            if e['err'] == '' and any(s[0] + s[1] > W for s in e['seqs']):
                f.add('seq_gt_window')
            if e['err'] == '' and any(s[1] > 0 for s in e['seqs']):
                f.add('match_' + kind)
            if e['err'] == 'full':
                f.add('refused_full')
            if len(e.get('wcalls') or []) >= 2:
                f.add('multi_flush')
            if any(c[2] != '' for c in e.get('wcalls') or []):
                f.add('writer_fault')
        elif op == 'dec.write' and e.get('n', 0) > 0:
            f.add('skipped_block')
        elif op == 'shrink' and e['delta'] > 0:
            f.add('parser_discard')
    return f


def run_e2e(ctx, fam):
    t = ctx.thorough()
    scripts = vlib.go_gen(ctx, 'e2e', 2400 if t else 400, ctx.seed) + corpus_scripts('e2e')
    return finish(ctx, fam, scripts, 'E2E_Trace', e2e_mutants, e2e_features,
                  extra_env={'VERIF_C11': '0', 'VERIF_C12': '0'})


def fam_dec(rule):
    return dict(run=run_dec, trace_module='Decoder_Trace', rule=rule, assumptions=DEC_ASSUME)


# ----------------------------------------------------------------------------
# Parser family: C01 C02 C03 C11 C12 C14 C15 C19
# ----------------------------------------------------------------------------
KINDS = ['HP', 'BHP', 'DHP', 'BDHP', 'BUP', 'GSAP', 'OSAP']
TINY = {
    'HP': dict(InputLen=2, HashBits=4), 'BHP': dict(InputLen=2, HashBits=3),
    'DHP': dict(InputLen1=2, HashBits1=4, InputLen2=3, HashBits2=4),
    'BDHP': dict(InputLen1=2, HashBits1=3, InputLen2=4, HashBits2=4),
    'BUP': dict(InputLen=2, HashBits=3, BucketSize=2),
    'GSAP': dict(MinMatchLen=2), 'OSAP': dict(MinMatchLen=2, MaxMatchLen=8),
}


def parser_ops_to_script(tid, ops, kind, tags=()):
    begin = ops[0]
    cfg = {k: v for k, v in begin.items() if k != 'op'}
    cfg['kind'] = kind
    cfg.update(TINY[kind])
    return dict(tid=tid, comp='parser', cfg=cfg, ops=ops[1:], tags=list(tags) + [kind])


def parser_mutants(evs):
    if any(e['op'] in ('panic', 'timeout', 'livelock') for e in evs):
        return
    for i, e in enumerate(evs):
        if e['op'] == 'parse' and e.get('lits') and e['err'] == '':
            m = copy.deepcopy(evs)
            m[i]['lits'][0] = (m[i]['lits'][0] + 1) % 256
            yield 'flipbyte', m
            break
    # delete a Write whose bytes were needed: after it (and after the last
    # Reset) more bytes were parsed than remain accepted without it, so the
    # shortened trace must break the accounting rules
    last_reset = max([i for i, e in enumerate(evs) if e['op'] == 'reset'] + [0])
    tail = evs[last_reset:]
    if last_reset > 0 and tail[0].get('err') == '':
        accepted = len(tail[0].get('data') or [])
    else:
        accepted = 0
    accepted += sum(e.get('n', 0) for e in tail[1:] if e['op'] in ('write', 'readfrom'))
    parsed = sum(e.get('n', 0) for e in tail[1:] if e['op'] in ('parse', 'parsenil'))
    if last_reset == 0 or tail[0].get('err') == '':
        for i in range(len(evs) - 1, last_reset, -1):
            e = evs[i]
            if e['op'] == 'write' and e.get('n', 0) > 0 and parsed > accepted - e['n']:
                m = copy.deepcopy(evs)
                del m[i]
                yield 'delevent', m
                break


def parser_features(evs):
    f = set()
    shrunk = False
    kind = evs[0]['c']['kind']
    for e in evs[1:]:
        op = e['op']
        if op in ('panic', 'timeout', 'livelock'):
            f.add(op)
        elif op == 'parse':
            if e['seqs']:
                f.add('match')
                f.add('match_' + kind)
                if shrunk:
                    f.add('match_after_shrink')
                if any(s[1] > s[2] for s in e['seqs']):
                    f.add('overlapping_match')
            if e['flags'] == 1 and e['seqs']:
                f.add('ntl_with_match')
        elif op == 'parsenil' and e['n'] > 0:
            f.add('skip')
        elif op == 'shrink' and e['delta'] > 0:
            f.add('discard')
            shrunk = True
        elif op == 'reset' and e['err'] == '':
            f.add('reset')
            shrunk = False
        elif op == 'readfrom':
            if any(c[2] in ('reader', 'reader2') for c in e['calls']):
                f.add('reader_fault')
            if len(e['calls']) > 1:
                f.add('short_reads')
        elif op == 'write' and e['err'] == 'full':
            f.add('buffer_full')
        elif op in ('readat', 'byteat') and e['err'] != '':
            f.add('probe_' + e['err'])
    return f


def hp_drift(scripts, traces):
    """Conformance of the real hash parser with HP.tla: the model predicts n and
    the sequences of every call of its histories (real hash slots, see
    HPHash.tla). A difference is DRIFT (the model must be updated or the code
    changed behaviour within the envelope), not a violation."""
    compared = bad = 0
    first = None
    for sc in scripts:
        tags = sc.get('tags', [])
        if not (('dict-model' in tags and sc['cfg'].get('kind') in ('HP', 'BHP', 'BUP', 'DHP', 'BDHP'))
                or ('tlc-cover' in tags and sc['cfg'].get('kind') in ('GSAP', 'OSAP'))):
            continue
        tr = traces.get(sc['tid'])
        if not tr:
            continue
        evs = [e for e in tr[1][1:] if e['op'] != 'end']
        for o, e in zip(sc['ops'], evs):
            ex = o.get('expect')
            if e['op'] != o['op']:
                break
            if ex is None:
                continue
            compared += 1
            ok = all(e.get(k) == v for k, v in ex.items() if k != 'seqs')
            if 'seqs' in ex:
                ok = ok and [list(x) for x in e.get('seqs', [])] == [list(x) for x in ex['seqs']]
            if not ok:
                bad += 1
                first = first or dict(tid=sc['tid'], op=o['op'], predicted=ex,
                                      recorded={k: e.get(k) for k in list(ex) if k in e})
                break
    return dict(compared=compared, disagreements=bad, first=first, model='HP.tla (HP, BHP) / BUP.tla / DHP.tla (DHP, BDHP) / GSAP.tla / OSAP.tla')


def run_parser(ctx, fam):
    t = ctx.thorough()
    extra = {}
    if ctx.prop == 'C15':
        log('[C15] unbounded arithmetic of Write / Parse / Shrink / Reset (Apalache, inductive invariant of ParserRetain.tla)')
        extra['apalache_inductive_invariant'] = vlib.apalache_inductive(ctx, 'ParserRetain.tla')
    log('[%s] design model check (ParserBuffer design + abstract parser refine the ParserSM envelope)' % ctx.prop)
    vlib.tlc_mc(ctx, 'ParserBufMC.tla', 'ParserBufMC_T.cfg' if t else 'ParserBufMC.cfg', workers='16')
    scripts = []
    if fam.get('design') or fam['mix'].get('design'):
        # implementation-shaped model of the match finder: model-checked
        # against the envelope rules, and every transition of its state graph
        # becomes a history for the real parser
        mod, cq, ct, limit = fam.get('design') or fam['mix']['design']
        log('[%s] design model check + transition cover of %s' % (ctx.prop, mod))
        hist = vlib.tlc_cover(ctx, mod, ct if t else cq, limit=(8 * limit if t else limit), seed=ctx.seed, timeout=2400)
        for i, ops in enumerate(hist):
            begin = dict(ops[0])
            kind = begin.pop('kind')
            begin.pop('op')
            cfgd = dict(begin, kind=kind)
            scripts.append(dict(tid='%s-cover-%d' % (kind.lower(), i), comp='parser', cfg=cfgd, ops=ops[1:],
                                tags=['tlc-cover', kind]))
    log('[%s] generating histories' % ctx.prop)
    mix = fam['mix']
    scale = 6 if t else 1
    if mix.get('walks'):
        walks = vlib.tlc_walks(ctx, 'ParserBufMC.tla', 'ParserBufWalk.cfg', num=mix['walks'] * scale, depth=45, seed=ctx.seed)
        for i, ops in enumerate(walks):
            kind = KINDS[i % len(KINDS)]
            scripts.append(parser_ops_to_script('parser-walk-%d-%d' % (ctx.seed, i), ops, kind, ['tlc-walk']))
    if mix.get('hp'):
        # implementation-shaped dictionary models with the real slot function:
        # HP.tla (HP, BHP), BUP.tla, DHP.tla (DHP, BDHP).
        # The quick tier runs one of the two per property, the thorough tier both.
        models = [('HP.tla', 'HP_q.cfg', 'HP_T.cfg', 'HP'), ('BUP.tla', 'BUP_q.cfg', 'BUP_T.cfg', 'BUP'),
                  ('DHP.tla', 'DHP_q.cfg', 'DHP_T.cfg', 'DHP'), ('HP.tla', 'BHP_q.cfg', 'BHP_T.cfg', 'BHP'),
                  ('DHP.tla', 'BDHP_q.cfg', 'BDHP_T.cfg', 'BDHP')]
        if not t:
            models = [models[{'C01': 0, 'C02': 1, 'C03': 2, 'C14': 3, 'C15': 1, 'C19': 4}.get(ctx.prop, 0)]]
        for mod, cq, ct, mk in models:
            log('[%s] design model check + transition cover of %s (dictionary with the real slot function)' % (ctx.prop, mod))
            hist = vlib.tlc_cover(ctx, mod, ct if t else cq, limit=(6000 if t else mix['hp']), seed=ctx.seed, timeout=3000)
            for i, ops in enumerate(hist):
                begin = dict(ops[0])
                begin.pop('op')
                begin.pop('expect', None)
                kind = mk
                cfgd = dict(begin, kind=kind)
                cfgd.pop('BucketSize', None) if kind != 'BUP' else None
                scripts.append(dict(tid='%s-cover-%d' % (mk.lower(), i), comp='parser', cfg=cfgd, ops=ops[1:],
                                    tags=['dict-model', kind]))
        fam = dict(fam, _drift=hp_drift)
    if fam.get('design') or mix.get('design'):
        fam = dict(fam, _drift=hp_drift)
    for gen, n in mix.get('go', []):
        scripts += vlib.go_gen(ctx, gen, n * scale, ctx.seed)
    scripts += corpus_scripts('parser')
    env = {'VERIF_C11': '1' if ctx.prop == 'C11' else '0', 'VERIF_C12': '1' if ctx.prop == 'C12' else '0'}
    return finish(ctx, fam, scripts, 'Parser_Trace', parser_mutants, parser_features, extra_env=env, extra_cov=extra)


PARSER_ASSUME = [
    'TLC evaluates the ParserSM envelope (reference expander, well-formedness, maximality, brute-force longest previous match, cost-optimal parse) correctly; the recorder logs every call with arguments and results (binding self-test)',
    'configuration constants are read back from the parser (ParserConfig/BufferConfig), zero request fields mean defaults',
    'recorded streams are <= 600 bytes (<= 220 bytes and blocks <= 64 bytes where the cubic oracles of C11/C12 run): 32-bit position overflow and MiB windows are out of reach',
]


def bitset_mutants(evs):
    for i, e in enumerate(evs):
        if e['op'] == 'insert' and len(e.get('members') or []) >= 2:
            m = copy.deepcopy(evs)
            m[i]['members'] = m[i]['members'][1:]
            yield 'dropmember', m
            m2 = copy.deepcopy(evs)
            m2[i]['after'][0] = m2[i]['after'][0] + 1
            yield 'wrongneighbour', m2
            return


def bitset_features(evs):
    f = set()
    cleared = False
    for e in evs[1:]:
        if e['op'] == 'clear':
            cleared = True
        if e['op'] == 'insert' and cleared and e.get('cap', 0) >= e.get('nwords', 0) > 1:
            f.add('reuse_after_clear')
        if e.get('nwords', 0) >= 3:
            f.add('three_words')
        if e['op'] == 'delete':
            f.add('delete')
    return f


def run_bitset(ctx, fam):
    t = ctx.thorough()
    log('[%s] design model check (Bitset.tla: support/insert/delete/clear and the neighbour queries against set semantics) + transition cover' % ctx.prop)
    hist = vlib.tlc_cover(ctx, 'Bitset.tla', 'Bitset_gen.cfg', limit=None if t else 1500, seed=ctx.seed)
    probes = sorted({p + d for p in (0, 1, 63, 64, 127, 128, 200, 260) for d in (-1, 0, 1) if p + d >= 0})
    scripts = [dict(tid='bitset-cover-%d' % i, comp='bitset', cfg=dict(probes=probes), ops=ops[1:], tags=['tlc-cover'])
               for i, ops in enumerate(hist)]
    scripts += vlib.go_gen(ctx, 'bitset', 1200 if t else 200, ctx.seed)
    return finish(ctx, fam, scripts, 'Bitset_Trace', bitset_mutants, bitset_features)


def fam_parser(rule, mix, design=None):
    return dict(run=run_parser, trace_module='Parser_Trace', rule=rule, assumptions=PARSER_ASSUME, mix=mix,
                design=design)



# ----------------------------------------------------------------------------
# Wrap family: C08
# ----------------------------------------------------------------------------
def wrap_ops_to_script(tid, ops, kind, binary, tags=()):
    begin = ops[0]
    cfg = {k: v for k, v in begin.items() if k != 'op'}
    cfg['kind'] = kind
    cfg.update(TINY[kind])
    if binary:
        # the model's source bytes are 1,2,3,... (all distinct); fold them so
        # that the real parsers find matches
        cfg['src'] = [(x * 7 // 3) % 2 for x in cfg['src']]
    cfg['eofwith'] = False
    # the reader's choices ("r" entries) become the reader script
    cfg['rcalls'] = [[o['k'], o['ec']] for o in ops[1:] if o['op'] == 'r']
    calls = [o for o in ops[1:] if o['op'] != 'r']
    return dict(tid=tid, comp='wrap', cfg=cfg, ops=calls, tags=list(tags) + [kind])


def wrap_mutants(evs):
    if any(e['op'] in ('panic', 'timeout', 'livelock') for e in evs):
        return
    for i, e in enumerate(evs):
        if e['op'] == 'wparse' and e.get('lits') and e['err'] == '':
            m = copy.deepcopy(evs)
            m[i]['lits'][-1] = (m[i]['lits'][-1] + 1) % 256
            yield 'flipbyte', m
            break
    for i, e in enumerate(evs):
        if e['op'] == 'wparse' and e['err'] == '' and e['n'] > 0 and not any(x['op'] == 'wreset' for x in evs[i:]) \
                and any(x['op'] in ('wparse', 'wparsenil') for x in evs[i + 1:]):
            m = copy.deepcopy(evs)
            del m[i]
            yield 'delevent', m
            break
    for i, e in enumerate(evs):
        if e['op'] == 'wparse' and e['err'] == '' and e.get('reads') and any(c[1] > 0 for c in e['reads']):
            m = copy.deepcopy(evs)
            for c in m[i]['reads']:
                if c[1] > 0:
                    c[3][0] = (c[3][0] + 1) % 256
                    break
            yield 'flipread', m
            break


def wrap_features(evs):
    f = set()
    kind = evs[0]['c']['kind']
    B = evs[0]['c']['B']
    total = 0
    for e in evs[1:]:
        op = e['op']
        if op in ('panic', 'timeout', 'livelock'):
            f.add(op)
        elif op in ('wparse', 'wparsenil'):
            rd = e.get('reads') or []
            total += sum(c[1] for c in rd)
            if any(c[2] in ('reader', 'reader2') for c in rd):
                f.add('reader_fault')
                if any(c[2] in ('reader', 'reader2') and c[1] > 0 for c in rd):
                    f.add('fault_with_data')
            if any(c[2] == 'eof' and c[1] > 0 for c in rd):
                f.add('data_with_eof')
            if len(rd) > 1:
                f.add('short_reads')
            if e['err'] in ('reader', 'reader2'):
                f.add('error_returned')
            if op == 'wparse' and e.get('seqs'):
                f.add('match')
                f.add('match_' + kind)
            if op == 'wparsenil' and e['n'] > 0:
                f.add('skip')
        elif op == 'shrink' and e['delta'] > 0:
            f.add('discard')
        elif op == 'wreset':
            f.add('wreset')
    if total > B:
        f.add('refill')
    return f


def run_wrap(ctx, fam):
    t = ctx.thorough()
    log('[%s] design model check (WrappedParser loop over the ParserBuffer design with a faulty reader refines the Wrap envelope; termination)' % ctx.prop)
    vlib.tlc_mc(ctx, 'WrapMC.tla', 'WrapMC_T.cfg' if t else 'WrapMC.cfg', workers='16')
    scripts = []
    log('[%s] generating histories' % ctx.prop)
    walks = vlib.tlc_walks(ctx, 'WrapMC.tla', 'WrapWalk.cfg', num=(900 if t else 150), depth=80, seed=ctx.seed)
    for i, ops in enumerate(walks):
        kind = KINDS[i % len(KINDS)]
        scripts.append(wrap_ops_to_script('wrap-walk-%d-%d' % (ctx.seed, i), ops, kind, i % 3 != 0, ['tlc-walk']))
        scripts[-1]['cfg']['reuse'] = i % 2 == 0      # one Block handed to every Parse call
    scripts += vlib.go_gen(ctx, 'wrap', 2400 if t else 400, ctx.seed)
    scripts += vlib.go_gen(ctx, 'wrap-default', 50 if t else 10, ctx.seed)
    scripts += corpus_scripts('wrap')
    return finish(ctx, fam, scripts, 'Wrap_Trace', wrap_mutants, wrap_features)


WRAP_ASSUME = [
    'TLC evaluates the Wrap and ParserSM envelopes correctly; the recorder logs every WrappedParser.Parse call with its results and every reader call made inside it (binding self-test), and a proxy lz.Parser logs the calls the wrapper makes on the inner parser',
    'the reader conforms to io.Reader and never returns (0, nil); io.EOF is sticky',
    'recorded streams are <= 600 bytes, buffers <= 300 bytes',
]


# ----------------------------------------------------------------------------
# TwoRun family: C13, chunking clause of C08
# ----------------------------------------------------------------------------
def tworun_mutants(evs):
    """change one observable result of a compared call of a non-reference run"""
    if any(e['op'] in ('panic', 'timeout', 'livelock', 'stalled') for e in evs):
        return
    runs = [i for i, e in enumerate(evs) if e['op'] == 'run']
    if len(runs) < 2:
        return
    start = runs[1]
    synced = False
    for i in range(start, len(evs)):
        e = evs[i]
        if e['op'] == 'sync':
            synced = True
        if e['op'] == 'run' and i > start:
            break
        ops = ('wparse',) if evs[0].get('mode') == 'chunk' else ('parse', 'wparse')
        if synced and e['op'] in ops and e.get('err') == '' and e.get('lits'):
            m = copy.deepcopy(evs)
            m[i]['lits'][0] = (m[i]['lits'][0] + 1) % 256
            yield 'flipbyte', m
            m2 = copy.deepcopy(evs)
            del m2[i]
            yield 'delevent', m2
            return


def tworun_features(evs):
    f = set()
    mode = evs[0].get('mode')
    kind = evs[0]['c']['kind']
    run = None
    synced = False
    for e in evs[1:]:
        op = e['op']
        if op == 'run':
            run = e['run']
            synced = False
        elif op == 'sync':
            synced = True
        elif op in ('panic', 'timeout', 'livelock', 'stalled'):
            f.add(op)
        elif run == 'R' and synced and op in ('parse', 'wparse') and e.get('seqs'):
            f.add('match_compared')
            f.add(mode + '_match_' + kind)
        elif run != 'R' and not synced and op == 'shrink' and e.get('delta', 0) > 0:
            f.add('history_with_discard')
        elif run != 'R' and not synced and op == 'parse' and e.get('seqs'):
            f.add('history_with_match')
        elif op == 'reset' and e.get('data'):
            f.add('reset_with_data')
    return f


def race_part(ctx, fam, scripts):
    """Run concurrent scripts with a race-detector build of the driver. A
    data race inside package lz is a violation of the concurrency clause of
    C13; a race in the harness itself is an infrastructure error."""
    binr = vlib.build_race_harness(ctx)
    rlog = os.path.join(ctx.work, 'race')
    vlib.drive(ctx, scripts, name='race', binary=binr, race_out=rlog, call_timeout='20s')
    reports = []
    for p in glob.glob(rlog + '.*'):
        reports.append(open(p).read())
    text = '\n'.join(reports)
    n = text.count('WARNING: DATA RACE')
    res = dict(race_scripts=len(scripts), race_reports=n)
    if n == 0:
        return 0, res
    import re
    tops = re.findall(r'(?:Write|Read|Previous write|Previous read) at [^\n]*\n\s+(\S+)\(', text)
    in_lz = [t for t in tops if t.startswith('github.com/ulikunitz/lz')]
    if not in_lz:
        raise Infra('the race detector reported a race outside package lz (harness defect?):\n' + text[:3000])
    d = os.path.join(vlib.VERIF, 'replays', ctx.prop)
    if getattr(ctx, 'work_replays', False):
        d = os.path.join('/tmp', 'seed-replays', ctx.prop)
    os.makedirs(d, exist_ok=True)
    path = os.path.join(d, 'race-%d.json' % ctx.seed)
    json.dump(dict(property=ctx.prop, rules=['C13.no_shared_state'], report=text[:20000], scripts=scripts[:3]),
              open(path, 'w'), indent=1)
    log('VIOLATION property=%s replay=%s' % (ctx.prop, path))
    log('  data race between distinct instances inside package lz: %s' % sorted(set(in_lz))[:4])
    res['race_in_lz'] = sorted(set(in_lz))[:8]
    return 1, res


def run_tworun(ctx, fam):
    t = ctx.thorough()
    scale = 6 if t else 1
    scripts = []
    for gen, n in fam['gens']:
        scripts += vlib.go_gen(ctx, gen, n * scale, ctx.seed)
    scripts += corpus_scripts('tworun')
    extra = {}
    rc_race = 0
    if fam.get('race'):
        conc = vlib.go_gen(ctx, 'tworun-conc', fam['race'] * (3 if t else 1), ctx.seed + 7919)
        rc_race, extra = race_part(ctx, fam, conc)
    try:
        rc = finish(ctx, fam, scripts, 'TwoRun_Trace', tworun_mutants, tworun_features, extra_cov=extra,
                    call_timeout='20s', retries=10)
    except Infra as e:
        if rc_race != 1:
            raise
        log('note: after the race-detector violation the trace part ended without verdict: %s' % e)
        rc = 1
    return 1 if (rc == 1 or rc_race == 1) else rc


TWORUN_ASSUME = [
    'TLC evaluates TwoRun.tla correctly; the recorder logs every call of every run with its observable results (binding self-test)',
    'the compared runs receive identical calls: all driver decisions depend only on script parameters and on the results returned (which must be equal)',
    'goroutine schedules are those the Go scheduler produces while 8 instances run concurrently next to 3 busy parser/decoder goroutines (sampled, not enumerated); the race detector watches a subset of the concurrent scripts',
]


# ----------------------------------------------------------------------------
# Config family: C20, C16
# ----------------------------------------------------------------------------
def config_mutants(evs):
    for i, e in enumerate(evs):
        if e['op'] == 'cfg' and e.get('parsed') and e.get('new') == 'done' and e.get('new_err') == '':
            m = copy.deepcopy(evs)
            k = sorted(m[i]['parsed'])[0]
            m[i]['parsed'][k] = m[i]['parsed'][k] + '1'
            yield 'flipfield', m
            m2 = copy.deepcopy(evs)
            m2[i]['new_err'] = 'err'
            yield 'fliperr', m2
            return


def config_features(evs):
    f = set()
    for e in evs[1:]:
        if e['op'] == 'cfg':
            if e.get('new') == 'done':
                f.add('accepted' if e.get('new_err') == '' else 'refused')
            if e.get('d1') != e.get('f'):
                f.add('defaults_applied')
            if any(v.startswith('-') for v in e['f'].values()):
                f.add('negative_field')
            if any(len(v) > 9 and not v.startswith('s:') for v in e['f'].values()):
                f.add('huge_field')
        elif e['op'] == 'jsondoc':
            f.add('json_accepted' if e.get('err') == '' else 'json_rejected')
        elif e['op'] in ('panic', 'timeout'):
            f.add(e['op'])
    return f


def chunk_ops(ops, tid, size=200, tags=()):
    out = []
    for i in range(0, len(ops), size):
        out.append(dict(tid='%s-%d' % (tid, i // size), comp='config', cfg={}, ops=ops[i:i + size], tags=list(tags)))
    return out


def generic_history(kind, d1, idx, rng):
    """A parser script and a wrap script that push a parser built from an
    accepted boundary configuration through more than one buffer fill, Shrink,
    Reset (nil and data), NoTrailingLiterals, nil blocks, probes, and a
    wrapped run with short reads and a reader fault."""
    cfg = {k: int(v) for k, v in d1.items() if not v.startswith('s:')}
    cfg['kind'] = kind
    B = cfg.get('BufferSize', 64)
    L = min(3 * B + 7, 260)
    alpha = rng.choice([[0], [0, 1], [97, 98, 99], [0, 0, 0, 255]])
    data = []
    while len(data) < L:
        if rng.random() < 0.3:
            data += [rng.choice(alpha)] * rng.randint(1, 40)
        elif rng.random() < 0.5 and len(data) > 6:
            s0 = rng.randrange(len(data) - 3)
            data += data[s0:s0 + rng.randint(3, 20)]
        else:
            data += [rng.choice(alpha) for _ in range(rng.randint(1, 9))]
    data = data[:L]
    half = len(data) // 2

    def pump(d, mode):
        return dict(op='pump', data=d, chunk=rng.choice([1, 3, max(1, B // 2 + 1), B, B + 3, 50]), mode=mode,
                    rmax=rng.choice([0, 1, 3]), seed=rng.randrange(1 << 30), pntl=rng.choice([0, 30, 100]),
                    pnil=rng.choice([0, 20]), pearly=rng.choice([0, 50]), pprobe=20, pshrink=20)

    rdata = data[:min(B, 20)] if B > 0 else []
    ops = [pump(data[:half], 'write'), dict(op='reset', data=rdata, cap=rng.choice([0, 3, 7, 20])),
           pump(data[half:], 'readfrom'), dict(op='parse', flags=1), dict(op='parsenil'),
           # unparsed data left in the buffer, more data arrives without a Shrink, and the
           # next blocks cross the end of what the parser had seen before
           dict(op='reset'), dict(op='write', p=data[:max(1, B // 2)]), dict(op='parse', flags=0),
           dict(op='write', p=data[max(1, B // 2):max(1, B // 2) + max(1, B // 3)]),
           dict(op='parse', flags=0), dict(op='parse', flags=0), dict(op='parse', flags=0),
           dict(op='reset'), dict(op='write', p=data[:min(len(data), B + 5)]), dict(op='shrink'),
           # a caller slice whose capacity lies just above BufferSize (BufferSize..BufferSize+6), then ReadFrom
           dict(op='reset', data=data[:max(0, B - 4)], cap=rng.choice([7, 8, 10])) if 4 < B <= 250 else dict(op='reset'),
           pump(data[half:], 'readfrom'),
           dict(op='reset', data=data[:B + 1], cap=0),      # oversize: documented error
           pump(data[:half], 'write'), dict(op='byteat', rel='end', d=0), dict(op='readat', rel='off', d=0, lenp=4)]
    ps = dict(tid='c16-parser-%d' % idx, comp='parser', cfg=cfg, ops=ops, tags=['grid', kind])
    wcfg = dict(cfg)
    wcfg['src'] = data
    wcfg['rcalls'] = [[3, ''], [1, ''], [5, 'reader'], [0, 'reader2'], [B + 1, '']] + [[rng.randint(1, 9), ''] for _ in range(6)]
    wcfg['eofwith'] = rng.random() < 0.5
    wcfg['reuse'] = rng.random() < 0.5
    ws = dict(tid='c16-wrap-%d' % idx, comp='wrap', cfg=wcfg,
              ops=[dict(op='wpump', seed=rng.randrange(1 << 30), pntl=30, pnil=10)], tags=['grid', kind])
    return ps, ws


def run_config(ctx, fam):
    t = ctx.thorough()
    log('[%s] design model check + grid enumeration (ConfigMC: defaults idempotent, only zero fields change, accepted => relied-on facts)' % ctx.prop)
    grid = vlib.tlc_enum(ctx, 'ConfigMC.tla', 'ConfigMC_T.cfg' if t else 'ConfigMC.cfg')
    expect = {}
    for o in grid:
        expect[(o['kind'], json.dumps(o['f'], sort_keys=True))] = o.pop('accept')
    scripts = chunk_ops(grid, 'config-grid', tags=['tlc-grid'])
    scripts += vlib.go_gen(ctx, 'config', 6000 if t else 1500, ctx.seed)
    scripts += corpus_scripts('config')
    # model expectation vs code (informational: DRIFT)
    def drift_count(tpath):
        n = tot = 0
        for tid, (first, evs) in vlib.split_traces(tpath).items():
            if not tid.startswith('config-grid'):
                continue
            sc = by_tid[tid]
            cfg_evs = [e for e in evs if e['op'] == 'cfg']
            for o, e in zip(sc['ops'], cfg_evs):
                key = (o['kind'], json.dumps(o['f'], sort_keys=True))
                if key in expect and e.get('verify_err') is not None:
                    tot += 1
                    if expect[key] != (e['verify_err'] == ''):
                        n += 1
        return n, tot
    by_tid = {s['tid']: s for s in scripts}
    fam = dict(fam)
    fam['_post'] = drift_count
    rc = finish(ctx, fam, scripts, 'Config_Trace', config_mutants, config_features, keep_trace=True)
    if ctx.prop != 'C16':
        return rc
    # C16: every accepted grid point is driven through a generic history
    import random
    rng = random.Random(ctx.seed)
    acc = []
    for tid, (first, evs) in vlib.split_traces(ctx.last_trace).items():
        if tid.startswith('config-grid'):
            for e in evs:
                if e['op'] == 'cfg' and e.get('new') == 'done' and e.get('new_err') == '':
                    acc.append((e['kind'], e['d1']))
    seen = set()
    uniq = []
    for k, d in acc:
        key = (k, json.dumps(d, sort_keys=True))
        if key not in seen:
            seen.add(key)
            uniq.append((k, d))
    limit = 4000 if t else 350
    if len(uniq) > limit:
        uniq = rng.sample(uniq, limit)
    ps, ws = [], []
    for i, (k, d) in enumerate(uniq):
        a, b = generic_history(k, d, i, rng)
        ps.append(a)
        ws.append(b)
    log('[%s] %d accepted grid points -> generic histories (parser + wrap)' % (ctx.prop, len(uniq)))
    ps += vlib.go_gen(ctx, 'parser', 700 if t else 140, ctx.seed)
    ps += vlib.go_gen(ctx, 'parser-cap', 210 if t else 42, ctx.seed)
    ps += vlib.go_gen(ctx, 'parser-ntlfuture', 250 if t else 50, ctx.seed)
    ws += vlib.go_gen(ctx, 'wrap-default', 40 if t else 8, ctx.seed)
    ws += vlib.go_gen(ctx, 'wrap', 700 if t else 140, ctx.seed)
    rc2 = finish(ctx, dict(fam, rule='accepted boundary configurations (ShrinkSize = BufferSize, BufferSize < InputLen, WindowSize 1, BlockSize 1, HashBits maximum, MinMatchLen = MaxMatchLen, defaults) driven through two buffer fills, Shrink, Reset(nil/data/oversize), NoTrailingLiterals, nil blocks and probes + seeded parser histories; rules C16.no_panic, C16.no_hang, C16.err_documented'),
                 ps, 'Parser_Trace', parser_mutants, parser_features, extra_env={'VERIF_C11': '0', 'VERIF_C12': '0'})
    rc3 = finish(ctx, dict(fam, rule='the same configurations through WrappedParser with short reads, reader faults, data together with io.EOF: rules C16.no_panic, C16.no_hang, C16.err_documented (io.EOF, the reader error, ErrFullBuffer only)'),
                 ws, 'Wrap_Trace', wrap_mutants, wrap_features)
    return 1 if 1 in (rc, rc2, rc3) else max(rc, rc2, rc3)


CONFIG_ASSUME = [
    'TLC evaluates Config.tla correctly; the recorder logs the field values of every derived configuration as decimal strings (binding self-test)',
    'which values Verify accepts is not specified: C16/C20 relate NewParser, SetDefaults, Verify, Clone, JSON and the reported configuration to each other',
    'memory: NewParser is not called when the defaults-completed configuration needs a hash table of more than 2^20 entries (new = skipped); buffers above 300 bytes are never filled',
]


# ----------------------------------------------------------------------------
# Suffix family: C09 C10
# ----------------------------------------------------------------------------
def suffix_mutants(evs):
    for i, e in enumerate(evs):
        if e['op'] == 'suffix' and len(e['t']) >= 4 and e.get('lcps'):
            m = copy.deepcopy(evs)
            m[i]['sa'][0], m[i]['sa'][1] = m[i]['sa'][1], m[i]['sa'][0]
            yield 'swapsa', m
            m2 = copy.deepcopy(evs)
            m2[i]['lcps'][0][-1] += 1
            yield 'lcpplus', m2
            return
        if e['op'] == 'segments' and len(e.get('cbs') or []) >= 1 and e['minlen'] <= e['maxlen']:
            big = [k for k, cb in enumerate(e['cbs']) if len(cb[1]) >= 2]
            if not big:
                continue
            m = copy.deepcopy(evs)
            m[i]['cbs'][big[0]][1] = m[i]['cbs'][big[0]][1][1:]      # incomplete group
            yield 'dropmember', m
            m2 = copy.deepcopy(evs)
            m2[i]['cbs'].append(copy.deepcopy(m2[i]['cbs'][big[0]]))   # reported twice
            yield 'dupgroup', m2
            return


def suffix_features(evs):
    f = set()
    for e in evs[1:]:
        if e['op'] == 'suffix':
            n = len(e['t'])
            f.add('sort_n<=48' if n <= 48 else ('sort_n<=1000' if n <= 1000 else 'sort_n>1000'))
            if e.get('lcps') and n > 0 and max(e['lcps'][0]) >= 8:
                f.add('lcp>=8')
        elif e['op'] == 'suffixcfg':
            f.add('thresholds')
        elif e['op'] == 'segments':
            if e['cbs']:
                f.add('groups')
            if len(e['cbs']) >= 10:
                f.add('groups>=10')
            if e.get('permute'):
                f.add('consumer_permutes')
            if len(e['t']) > 40:
                f.add('interval_form')
        elif e['op'] in ('panic', 'timeout'):
            f.add(e['op'])
    return f


def chunk_suffix(ops, tid, size, tags):
    return [dict(tid='%s-%d' % (tid, i // size), comp='suffix', cfg={}, ops=ops[i:i + size], tags=list(tags))
            for i in range(0, len(ops), size)]


def trcopy_drift(scripts, traces):
    """trCopy / trPartialCopy of the real code against the transcription in
    TrCopy.tla: the model's arrays after the call travel with every enumerated
    situation (`expect`) and are compared entry by entry (informational)."""
    compared = bad = 0
    first = None
    for sc in scripts:
        if not {'trcopy', 'sortprim', 'trsort', 'wordops'} & set(sc.get('tags', [])):
            continue
        tr = traces.get(sc['tid'])
        if not tr:
            continue
        evs = [e for e in tr[1][1:] if e['op'] != 'end']
        for o, e in zip(sc['ops'], evs):
            if e['op'] != o['op']:
                break
            compared += 1
            ex = o['expect']
            if any((list(e.get(k, [])) != list(v)) if isinstance(v, list) else (e.get(k) != v) for k, v in ex.items()):
                bad += 1
                first = first or dict(tid=sc['tid'], op={k: v for k, v in o.items() if k != 'expect'}, predicted=ex,
                                      recorded={k: e.get(k) for k in ex})
    return dict(compared=compared, disagreements=bad, first=first, model='TrCopy.tla (trCopy, trPartialCopy), SortPrims.tla (trHeapSort, trInsertionSort), TrSortImpl.tla (trSort), WordOps.tla (lcp, lcs)')


def run_suffix(ctx, fam):
    t = ctx.thorough()
    scripts = []
    if ctx.prop == 'C09':
        log('[C09] design model check (linear suffix-array checker <=> definition, LCP check forms, on every text and EVERY permutation)')
        vlib.tlc_mc(ctx, 'SuffixEqMC.tla', 'SuffixEqMC_T.cfg' if t else 'SuffixEqMC.cfg', workers='16', timeout=1500)
        log('[C09] stage model of the sort driver (DivSufSort.tla: classify, offsets, B* copy, induce B, induce A with their contracts)')
        vlib.tlc_mc(ctx, 'DivSufSortMC.tla', 'DivSufSortMC_T.cfg' if t else 'DivSufSortMC.cfg', workers='16', timeout=1500)
        vlib.tlc_mc(ctx, 'DivSufSortMC.tla', 'DivSufSortMC_bT.cfg' if t else 'DivSufSortMC_b.cfg', workers='16', timeout=1500)
        log('[C09] the same with both sorting engines transcribed (Variant impl: SsortImpl.tla + TrSortImpl.tla inside the stage model = complete implementation-shaped model of suffix.Sort)')
        vlib.tlc_mc(ctx, 'DivSufSortMC.tla', 'DivSufSortMC_implT.cfg' if t else 'DivSufSortMC_impl.cfg', workers='16', timeout=2400)
        log('[C09] rank sort by prefix doubling (TrSortRounds.tla: consistent refinement, reads in range, finishes)')
        vlib.tlc_mc(ctx, 'TrSortRounds.tla', 'TrSortRounds_T.cfg' if t else 'TrSortRounds.cfg', workers='16', timeout=1500)
        log('[C09] tandem repeat copy of the rank sort (TrCopy.tla: transcribed trCopy / trPartialCopy on every situation of the scope)')
        if t:
            vlib.tlc_mc(ctx, 'TrCopy.tla', 'TrCopy_T.cfg', workers='16', timeout=2400)
        tops = vlib.tlc_enum(ctx, 'TrCopy.tla', 'TrCopy_genT.cfg' if t else 'TrCopy_gen.cfg', timeout=2400)
        scripts += chunk_suffix(tops, 'trcopy-enum', 300, ['tlc-enum', 'trcopy'])
        log('[C09] sorting fall-backs of the rank sort (SortPrims.tla: transcribed trHeapSort / trInsertionSort on every small input)')
        pops = vlib.tlc_enum(ctx, 'SortPrims.tla', 'SortPrims_genT.cfg' if t else 'SortPrims_gen.cfg', timeout=2400)
        scripts += chunk_suffix(pops, 'sortprim-enum', 2000, ['tlc-enum', 'sortprim'])
        log('[C09] the whole rank sort (TrSortImpl.tla: trSort / trIntroSort / trPartition / trPivot / budget transcribed; TrSortMC: every small rank string x size threshold)')
        if t:
            vlib.tlc_mc(ctx, 'TrSortMC.tla', 'TrSortMC_T.cfg', workers='16', timeout=3000)
        sops = vlib.tlc_enum(ctx, 'TrSortMC.tla', 'TrSortMC_genT.cfg' if t else 'TrSortMC_gen.cfg', timeout=3000)
        scripts += chunk_suffix(sops, 'trsort-enum', 1000, ['tlc-enum', 'trsort'])
        log('[C09] word-wise lcp / lcs of bytes.go (WordOps.tla; every length relation to the 8- and 4-byte steps)')
        wops = vlib.tlc_enum(ctx, 'WordOps.tla', 'WordOps_gen.cfg', timeout=1200)
        scripts += chunk_suffix(wops, 'wordops-enum', 1000, ['tlc-enum', 'wordops'])
        fam = dict(fam, _drift=trcopy_drift)
        log('[C09] LCP by the phi algorithm (LcpPhi.tla: the carried length is sound, the table is the definition)')
        vlib.tlc_mc(ctx, 'LcpPhi.tla', 'LcpPhi_T.cfg' if t else 'LcpPhi.cfg', workers='16', timeout=1500)
        log('[C09] enumerating short texts (TLC) and structured texts (seeded)')
        ops = []
        for cfg in (['SuffixGen_bT.cfg', 'SuffixGen_tT.cfg'] if t else ['SuffixGen_b.cfg', 'SuffixGen_t.cfg']):
            ops += vlib.tlc_enum(ctx, 'SuffixGen.tla', cfg)
        # the same texts through the threshold hook (informational, DRIFT09.*)
        ops2 = []
        for i, o in enumerate(ops):
            ops2.append(o)
            if len(o['t']) >= 3 and (t or i % 4 == 0):
                ops2.append(dict(op='suffixcfg', t=o['t'], st=1 + i % 2, trst=1 + (i // 2) % 2))
            # the arrays between the stages of the sort driver against DivSufSort.tla (informational, DRIFT09.stage*)
            if len(o['t']) >= 3 and (t or i % 3 == 0):
                ops2.append(dict(op='suffixstages', t=o['t']))
        scripts += chunk_suffix(ops2, 'suffix-enum', 400, ['tlc-enum'])
        scripts += vlib.go_gen(ctx, 'suffix', 1200 if t else 160, ctx.seed)
    else:
        log('[C10] design model check (transcribed scanLCP against the C10 rules on every small text and every minLen <= maxLen) + enumeration')
        hist = vlib.tlc_cover(ctx, 'Segments.tla', 'Segments_T.cfg' if t else 'Segments_carry.cfg', timeout=2400)
        ops = [h[0] for h in hist]
        for i, o in enumerate(ops):
            o['src'] = 'lib' if i % 2 == 0 else 'naive'
            o['permute'] = (i // 2) % 2 == 1
            o['shared'] = (i // 4) % 3 == 0      # both tables carved out of one array
            o['nested'] = (i // 4) % 3 == 1      # the consumer calls Segments itself
        scripts += chunk_suffix(ops, 'segments-enum', 400, ['tlc-enum'])
        scripts += vlib.go_gen(ctx, 'segments', 500 if t else 70, ctx.seed)
    scripts += corpus_scripts('suffix')
    return finish(ctx, fam, scripts, 'Suffix_Trace', suffix_mutants, suffix_features, call_timeout='20s')


SUFFIX_ASSUME = [
    'TLC evaluates SuffixDefs.tla correctly (the linear rank-based checker is model-checked against the definition on all small texts and all permutations); the recorder logs texts, arrays and callbacks verbatim (binding self-test)',
    'recorded texts are <= 4096 bytes (<= 1500 in the quick tier; <= 700 for single runs, <= 600 for Segments): deep DivSufSort paths that need larger inputs with production thresholds are reached through the verif-tagged SortCfg hook only (informational DRIFT09 rules)',
]

MIX_GENERAL = dict(walks=140, hp=450, design=('GSAP.tla', 'GSAP_q.cfg', 'GSAP_mn.cfg', 300), go=[('parser', 350), ('parser-runs', 49), ('parser-osap', 28), ('parser-cap', 28), ('parser-sa-ntl', 70), ('parser-ntlfuture', 100), ('parser-ntlcollide', 45), ('parser-alias', 42), ('parser-collide', 84)])

def fam_dbuf(rule):
    return dict(run=run_dbuf, trace_module='DecoderBuf_Trace', rule=rule, assumptions=DBUF_ASSUME)


PROPS = {
    'C09': dict(run=run_suffix, trace_module='Suffix_Trace', assumptions=SUFFIX_ASSUME,
                rule='texts = every text over {0,1} up to length 9 (12 thorough) and {0,1,2} up to 6 (8) enumerated by TLC + seeded structured texts (two-letter runs with random run lengths, periodic prefixes broken once, all 256 byte values, repeated blocks, Fibonacci, Thue-Morse, de Bruijn, k-ary random, runs); per text one event with Sort (sa pre-filled with garbage), the text afterwards, InvertSA and LCP in its four call forms; rules C09.perm, sorted (rank-based linear checker, plus the definition up to 48 bytes), t_untouched, inverse, lcp0, lcp; non-trivial = distinct script with texts of several size classes or LCP values >= 8'),
    'C10': dict(run=run_suffix, trace_module='Suffix_Trace', assumptions=SUFFIX_ASSUME,
                rule='(t, minLen, maxLen) = every text over {0,1} up to length 7 with 0 <= minLen <= maxLen <= 3 (thorough: {0,1,2} up to 6, maxLen <= 4) from the TLC run of Segments.tla + seeded longer texts (nested prefixes, falling-rising LCP profiles, runs), suffix array and LCP table from suffix.Sort/LCP or computed naively (both validated first), consumers that do or do not reorder the segment; rules C10.m_range, members_distinct, members_share, pair_once (pairwise form up to 40 bytes, lcp-interval form above), children_first, no_panic; non-trivial = distinct script with groups'),
    'C20': dict(run=run_multi, trace_module=None, parts=[
        dict(run=run_config, trace_module='Config_Trace', assumptions=CONFIG_ASSUME,
             rule='configuration values = every point of the TLC-enumerated boundary grid (ConfigMC, all seven types) + seeded values (negative, zero, 2^31, 2^32-7, 2^40, 2^62) + JSON documents (unknown / mismatching / missing Type, wrong value types, truncated, mutated); one event per value with everything the code derives from it; rules C20.json_roundtrip, json_reject, clone_equal, clone_independent, defaults_idempotent, defaults_only_zero, reported_config; non-trivial = distinct script with accepted and refused values, applied defaults, negative or huge fields'),
        dict(run=run_tworun, trace_module='TwoRun_Trace', assumptions=TWORUN_ASSUME, gens=[('tworun-cfg', 140)],
             rule='reported_behaviour: a parser built from the configuration another parser reports (ParserConfig().NewParser()) receives the same calls and must emit the same blocks (TwoRun.tla, rule C20.reported_behaviour)')]),
    'C16': dict(run=run_multi, trace_module=None, parts=[
        dict(run=run_config, trace_module='Config_Trace', assumptions=CONFIG_ASSUME,
             rule='NewParser succeeds exactly when Verify accepts the defaults-completed configuration (rule C16.new_iff_verify) and never panics, on the TLC-enumerated boundary grid and seeded extreme values')]),
    'C13': dict(run=run_tworun, trace_module='TwoRun_Trace', assumptions=TWORUN_ASSUME, race=16,
                gens=[('tworun-reset', 280), ('tworun-wreset', 70), ('tworun-adjacent', 70), ('tworun-conc', 14)],
                rule='multi-run traces judged by TwoRun.tla: (reset) a parser with a history (fills, shrinks, matches; related data so that stale dictionary entries would match) is Reset with nil or with data and then receives the same calls as a fresh parser that got the same Reset - every compared call must return the same n, error and block; (det) two fresh parsers, same calls; (conc) one sequential reference run and 8 identical runs on distinct instances executed concurrently next to busy parsers and decoders, a subset under the Go race detector; all seven parsers; non-trivial = distinct script whose compared part contains a match'),
    'C08': dict(run=run_multi, trace_module=None, parts=[
        dict(run=run_tworun, trace_module='TwoRun_Trace', assumptions=TWORUN_ASSUME, gens=[('tworun-chunk', 210)],
             rule='chunking independence: the same source through three WrappedParsers whose readers chunk differently (whole reads / single bytes / random short reads / data together with io.EOF), same flags: the sequences of (n, err, block) must be identical (TwoRun.tla, rule C08.chunking_equal)'),
        dict(run=run_wrap, trace_module='Wrap_Trace', assumptions=WRAP_ASSUME,
                rule='histories = TLC random walks of WrapMC (calls x reader chunking / fault / EOF choices) run on all seven parsers + seeded Go histories (inputs shorter/longer than BufferSize, exact multiples of BlockSize/BufferSize, whole / single-byte / random short reads, data together with io.EOF, 1-3 reader faults with and without data, nil blocks, NoTrailingLiterals, WrappedParser.Reset with a second stream); rules C08.* (roundtrip over the bytes the reader handed out, progress, err_after_delivery, err_is_readers, eof_when_done, eof_sticky, layers_agree, completes); non-trivial = distinct script with a refill, reader fault, data+EOF, match, skip or wreset')]),
    'C01': fam_parser('histories = TLC random walks of ParserBufMC (Write/ReadFrom chunkings and reader errors/Parse/Parse(nil)/Shrink/Reset/probes) instantiated for all seven parsers with the smallest gram sizes + seeded Go histories (11 input classes incl. runs of 0x00, periodic, Fibonacci, Thue-Morse, de Bruijn; tiny geometries in every order relation; pump loop with random flags, skips, shrinks, resets); rule C01.expand: every block expands on top of what a decoder holds to exactly the next n input bytes; non-trivial = distinct script whose trace has a match, a discard, a skip, NoTrailingLiterals with a match, a reset or a reader fault', MIX_GENERAL),
    'C02': fam_parser('same recordings as C01; rules C02.* on every emitted sequence at its absolute position (offset >= 1, <= WindowSize, <= position; length >= minimum, <= MaxMatchLen for OSAP; Aux = 0; LitLen sum <= literals)', MIX_GENERAL),
    'C03': fam_parser('same recordings as C01; rules C03.* (ErrEmptyBuffer iff nothing unparsed, emptied block, 1 <= n <= min(BlockSize, unparsed), Block.Len() = n, NoTrailingLiterals leaves no trailing literals); contiguity is the C01 equation of the next block', MIX_GENERAL),
    'C14': fam_parser('same recordings as C01 (10-30% nil blocks in a third of the scripts) + the nil generator (30-70% nil blocks with either flag value, blocks left unparsed while more data arrives, small blocks); rules C14.n, C14.empty_iff, and C14.block_after_skip = the round-trip equation for every block parsed after a skipped one', dict(MIX_GENERAL, go=MIX_GENERAL['go'] + [('parser-nil', 210), ('parser-nil-cached', 84)])),
    'C15': fam_parser('same recordings as C01 incl. probes (ReadAt/ByteAt at Off-2..Off+1 and end-2..end+1), Reset with caller slices of capacity len, len+3, len+7, len+8, len+20; rules C15.* (write_n, write_full_iff, readfrom_*, shrink_delta, reset_err, readat_*, byteat, no_panic)', MIX_GENERAL),
    'C19': fam_parser('recordings: run generator (every byte class incl. 0x00, runs of 32..432 bytes crossing block and buffer boundaries, WindowSize 1/2) + the C01 generators; + collision generator (hash parsers with 0..3 hash bits, repeats of 9..40 bytes); rules C19.right_maximal, C19.left_maximal (BHP, BDHP), C19.run_literals', dict(walks=70, hp=300, go=[('parser-runs', 210), ('parser', 175), ('parser-collide', 150)])),
    'C12': dict(run=run_multi, trace_module=None, parts=[
        dict(run=run_bitset, trace_module='Bitset_Trace', assumptions=['the verif-tagged VerifBitset hook forwards to the unexported bitset methods without adding behaviour'],
             rule='the search set of GSAP on its own: every transition of Bitset.tla (insert / delete / clear over positions around the 64-bit word boundaries, incl. re-use of the backing array after clear and downward growth) + seeded longer histories run on the real bitset through the VerifBitset hook; rules C12.bitset_members, C12.bitset_neighbours (set semantics)'),
        fam_parser('recordings: GSAP only, histories without Parse(nil), blocks <= 64 bytes, buffers <= 130 bytes, half of them with BufferSize <= WindowSize, several fills / Shrinks / Resets; rules C12.match_longest (every emitted match equals the brute-force longest previous match in the buffered data, clipped at the block end) and C12.literal_justified; plus buffers of 3-32 KiB (binary texts on which the suffix sort takes its rank-sort fall-backs) judged by C12.no_longer_match: counter-witnesses (position, earlier source, longer length) proposed by the harness and validated by TLC', dict(walks=0, go=[('parser-gsap', 260), ('parser-sa-ntl', 60), ('parser-gsap-big', 9)]), design=('GSAP.tla', 'GSAP_m.cfg', 'GSAP_T.cfg', 1500))]),
    'C11': fam_parser('recordings: OSAP only, flags 0 mostly, blocks <= 64 bytes, buffers <= 130 bytes, several blocks per fill (edge reuse), blocks after Shrink; rule C11.cost_optimal: BlockCost = OptCost (forward DP over literal and nearest-source match edges written in TLA+)', dict(walks=0, go=[('parser-osap', 170), ('parser-sa-ntl', 30), ('parser-osap-long', 10)]), design=('OSAP.tla', 'OSAP_q.cfg', 'OSAP_T.cfg', 1200)),
    'C06': dict(run=run_multi, trace_module=None, parts=[
        fam_dec('histories = random walks of Decoder.tla (API calls x writer fault schedule) + seeded Go-side histories with sizes around BufferSize-WindowSize / BufferSize, B < 2W, fault schedules and the retry protocol; C06 = no livelock / timeout event (no envelope action exists for them); liveness of the retry loops is model-checked (Terminates) on the design; non-trivial = distinct script with several flushes in one call, data larger than the free space, a refused or rejected block, or a writer fault'),
        fam_dbuf('DecoderBuffer level (C06 speaks of every call on Decoder and DecoderBuffer): same recordings as C04 (TLC transition cover / walks of DecoderBufMC + seeded histories with attacker values: offset 0, lengths up to 2^32-1, sizes around BufferSize); rule C06.timeout: no public DecoderBuffer call outlives the per-call watchdog; non-trivial as for C04')]),
    'C07': dict(run=run_multi, trace_module=None, parts=[
        fam_dec('same recordings as C06; rule C07.refused: without a writer fault a Decoder call may stop only at a malformed sequence; non-trivial as for C06'),
        dict(run=run_e2e, trace_module='E2E_Trace', assumptions=DEC_ASSUME + PARSER_ASSUME[:2],
             rule='composition parser || decoder: the blocks of all seven real parsers (WindowSize 4..100, BlockSize up to 3 x WindowSize on runs / periodic / structured inputs, skipped blocks as plain bytes) go into a real Decoder with the same window and BufferSize default / W+1 / W+3 / 2W / 4W / W+BlockSize through a writer with faults; rules C07.refused on every call and C07.output (after a fault-free Flush the sink is exactly what was parsed)')]),
    'C18': fam_dec('same recordings as C06; rules C18.prefix (every writer call is offered exactly the continuation of the reference expansion), C18.err_is_writers, C18.exactly_once (after a fault-free Flush the sink equals the reference expansion, also after retries of Sequences[k:], Literals[l:]); non-trivial = distinct script with a writer fault, short write or fault in the middle of a block'),
    'C04': dict(run=run_multi, parts=[fam_dbuf('histories = TLC transition cover / random walks of DecoderBufMC + seeded Go-side histories (B<=52, attacker values) + corpus; every event judged by the DecoderBuf envelope (data_suffix, retention, unread_kept, r_pos, read_out, reset); non-trivial = distinct script with a discard, mid-buffer read position, overlapping copy, rejected sequence, partial block or writer fault'),
                                  fam_dec('Decoder level: the recordings of C06/C18 (TLC walks of Decoder.tla + seeded histories with writer faults and retries); rules C04.output_exact (every writer call is offered exactly the continuation of the reference expansion: each byte once, in order) and C04.flush_complete')],
                trace_module=None),
    'C05': dict(run=run_multi, trace_module=None, parts=[
        fam_dec('Decoder level: the recordings of C06/C18 incl. long blocks that need several flush-and-retry rounds inside one WriteBlock, malformed last sequences, default-sized configurations; rules C05.reject_seq, atomic, nothing_of_failing, block_untouched, no_panic on every Decoder.WriteBlock'),
        fam_dbuf('same recordings as C04, rules C05.* (malformed match/sequence must be rejected, consumed prefix must be expandable, atomicity via the abstraction equation, caller block untouched, no panic); non-trivial = distinct script with a rejected sequence / partial block / discard')]),
    'C17': dict(run=run_multi, trace_module=None, parts=[
        fam_dec('Decoder level: the recordings of C06/C18; rules C17.write_n (Decoder.Write reports the bytes it appended, also when it writes in pieces), C17.n / k / l of Decoder.WriteBlock summed over its retry rounds'),
        fam_dbuf('same recordings as C04, rules C17.* (n, k, l, write_n, Off = Len(hist) in every state); non-trivial = distinct script with a discard, partial block, rejected sequence')]),
}
