package main

import (
	"bufio"
	"bytes"
	"fmt"
	"io"
	"math/rand"
	"sync"

	"github.com/ulikunitz/lz"
)

// Component "tworun": several runs over distinct objects of the same
// configuration inside one trace, for the self-composition specification
// TwoRun.tla (Reset = fresh, determinism, chunking independence, concurrent
// use of distinct instances).
//
// Script ops: {"op":"run","run":"R"|"X1"|...} starts a run on a new object
// (a parser, or with cfg.wrap a WrappedParser whose reader comes from the
// run op's src/rcalls/eofwith); the following ops go to that object;
// {"op":"sync"} marks the point from which the run's calls are compared
// with the reference run (the first one). With cfg.conc = K > 0 all runs
// except the first are executed concurrently in K goroutines, next to
// goroutines that keep other parsers and decoders busy.

type runObj struct {
	pd *pdrv
	wd *wdrv
}

func (o *runObj) do(op map[string]any) bool {
	name := str(op["op"])
	if o.wd != nil && (name == "wparse" || name == "wparsenil" || name == "wreset" || name == "wpump") {
		return o.wd.do(op)
	}
	if o.pd != nil {
		return o.pd.do(op)
	}
	panic("lzdrive: tworun: op " + name + " without object")
}

func newRunObj(s *Script, rec *Rec, run string, op map[string]any) *runObj {
	if boolean(s.Cfg["wrap"]) {
		// reader parameters come from the run op
		c2 := map[string]any{}
		for k, v := range s.Cfg {
			c2[k] = v
		}
		for _, k := range []string{"src", "rcalls", "eofwith"} {
			c2[k] = op[k]
		}
		s2 := *s
		s2.Cfg = c2
		d := newWrapDriver(&s2, rec, run)
		if d == nil {
			return nil
		}
		return &runObj{wd: d, pd: &pdrv{p: d.proxy, rec: rec, run: run}}
	}
	p, _ := makeParser(s, rec)
	if p == nil {
		return nil
	}
	if boolean(op["fromreported"]) {
		// a second parser from the configuration the first one reports
		var p2 lz.Parser
		var err error
		if !rec.Call("newparser", func() { p2, err = p.ParserConfig().NewParser() }) {
			return nil
		}
		if err != nil || p2 == nil {
			rec.Emit(Event{"op": "panic", "in": "newparser", "msg": "NewParser of a reported configuration failed: " + fmt.Sprint(err)})
			return nil
		}
		p = p2
	}
	return &runObj{pd: &pdrv{p: p, rec: rec, run: run}}
}

// splitRuns cuts the op list at the "run" markers.
func splitRuns(ops []map[string]any) [][]map[string]any {
	var out [][]map[string]any
	for _, op := range ops {
		if str(op["op"]) == "run" {
			out = append(out, []map[string]any{op})
		} else if len(out) > 0 {
			out[len(out)-1] = append(out[len(out)-1], op)
		}
	}
	return out
}

func execRun(s *Script, rec *Rec, ops []map[string]any) {
	run := str(ops[0]["run"])
	o := newRunObj(s, rec, run, ops[0])
	if o == nil {
		return
	}
	rec.Emit(Event{"op": "run", "run": run})
	for _, op := range ops[1:] {
		if str(op["op"]) == "sync" {
			rec.Emit(Event{"op": "sync", "run": run})
			continue
		}
		if !o.do(op) {
			return
		}
	}
}

// noise keeps other parser and decoder instances busy while the compared
// runs execute (distinct instances must not influence each other).
func noise(stop <-chan struct{}, seed int64, wg *sync.WaitGroup, own lz.ParserConfig, failed *string, mu *sync.Mutex) {
	defer wg.Done()
	defer func() {
		// a parser or decoder that fails only because other instances are
		// active breaks the independence of instances as well
		if x := recover(); x != nil {
			mu.Lock()
			*failed = fmt.Sprint(x)
			mu.Unlock()
		}
	}()
	r := rand.New(rand.NewSource(seed))
	cfgs := []lz.ParserConfig{
		own, own,
		&lz.HPConfig{InputLen: 3, HashBits: 8, BufferSize: 512, WindowSize: 256, BlockSize: 64},
		&lz.BDHPConfig{InputLen1: 3, HashBits1: 8, InputLen2: 5, HashBits2: 8, BufferSize: 512, WindowSize: 256, BlockSize: 64},
		&lz.BUPConfig{InputLen: 3, HashBits: 6, BucketSize: 2, BufferSize: 512, WindowSize: 256, BlockSize: 64},
		&lz.GSAPConfig{MinMatchLen: 3, BufferSize: 512, WindowSize: 256, BlockSize: 64},
		&lz.OSAPConfig{MinMatchLen: 3, BufferSize: 512, WindowSize: 256, BlockSize: 64},
	}
	for i := 0; ; i++ {
		select {
		case <-stop:
			return
		default:
		}
		p, err := cfgs[i%len(cfgs)].NewParser()
		if err != nil {
			return
		}
		data, _ := genInput(r, 300)
		var out bytes.Buffer
		d, err := lz.NewDecoder(&out, lz.DecoderConfig{WindowSize: 256, BufferSize: 600})
		if err != nil {
			return
		}
		wp := lz.Wrap(bytes.NewReader(data), p)
		var blk lz.Block
		for {
			if _, err := wp.Parse(&blk, 0); err != nil {
				break
			}
			d.WriteBlock(blk)
		}
		d.Flush()
		if !bytes.Equal(out.Bytes(), data) {
			panic("noise: round trip of an independent instance failed while other instances were active")
		}
	}
}

func runTwoRun(s *Script, rec *Rec) {
	// the configuration record comes from a probe object
	probe, kind := makeParser(s, rec)
	if probe == nil {
		return
	}
	rec.Emit(Event{"op": "begin", "tid": s.Tid, "comp": "tworun", "mode": str(s.Cfg["mode"]),
		"c": specCfg(kind, probe)})
	defer rec.Emit(Event{"op": "end"})
	runs := splitRuns(s.Ops)
	if len(runs) == 0 {
		return
	}
	conc := int(num(s.Cfg["conc"]))
	if conc <= 0 {
		for _, ops := range runs {
			execRun(s, rec, ops)
		}
		return
	}
	// reference run first, sequentially
	execRun(s, rec, runs[0])
	rest := runs[1:]
	bufs := make([]*bytes.Buffer, len(rest))
	var noiseFailed string
	var nmu sync.Mutex
	ok := rec.Call("concurrent", func() {
		stop := make(chan struct{})
		var nwg sync.WaitGroup
		for i := 0; i < 3; i++ {
			nwg.Add(1)
			own := newConfig(kind, s.Cfg)
			go noise(stop, int64(i)+num(s.Cfg["nseed"]), &nwg, own, &noiseFailed, &nmu)
		}
		var wg sync.WaitGroup
		sem := make(chan struct{}, conc)
		for i := range rest {
			bufs[i] = &bytes.Buffer{}
			sub := &Rec{w: bufio.NewWriter(bufs[i])}
			wg.Add(1)
			go func(i int, sub *Rec) {
				defer wg.Done()
				sem <- struct{}{}
				defer func() { <-sem }()
				execRun(s, sub, rest[i])
				sub.w.Flush()
			}(i, sub)
		}
		wg.Wait()
		close(stop)
		nwg.Wait()
	})
	if !ok {
		return
	}
	if noiseFailed != "" {
		rec.Emit(Event{"op": "panic", "in": "independent instance", "msg": noiseFailed})
		return
	}
	rec.mu.Lock()
	for _, b := range bufs {
		io.Copy(rec.w, b)
	}
	rec.mu.Unlock()
}

// ---------------------------------------------------------------------
// generators
// ---------------------------------------------------------------------

// suffixOps is the compared part of a run: deliver data in a fixed way and
// parse it with fixed flags (everything is determined by the op parameters
// and by the results, which must be equal in the compared runs).
func suffixOps(r *rand.Rand, data []byte, B int) []map[string]any {
	var ops []map[string]any
	for len(data) > 0 {
		k := len(data)
		if r.Intn(3) == 0 {
			k = 1 + r.Intn(len(data))
		}
		op := pumpOp(r, data[:k], B, "mixed")
		op["pprobe"] = 0
		ops = append(ops, op)
		data = data[k:]
	}
	ops = append(ops, map[string]any{"op": "parse", "flags": 0})
	return ops
}

// relatedInput returns a second input that shares material with the first
// (so that stale dictionary entries of the first can produce matches in the
// second): pieces of `a` in another order, mixed with fresh bytes.
func relatedInput(r *rand.Rand, a []byte, n int) []byte {
	if len(a) < 4 || r.Intn(5) == 0 {
		b, _ := genInput(r, n)
		return b
	}
	var out []byte
	switch r.Intn(3) {
	case 0: // the same data again (stale entries point at equal content)
		for len(out) < n {
			out = append(out, a...)
		}
	case 1: // the same data shifted by a few bytes (stale entries point ahead of equal content)
		k := 1 + r.Intn(9)
		if k >= len(a) {
			k = 1
		}
		for len(out) < n {
			out = append(out, a[k:]...)
			out = append(out, a[:k]...)
		}
	default: // pieces in another order, mixed with fresh bytes
		for len(out) < n {
			if r.Intn(4) != 0 {
				s := r.Intn(len(a) - 2)
				l := 2 + r.Intn(12)
				if s+l > len(a) {
					l = len(a) - s
				}
				out = append(out, a[s:s+l]...)
			} else {
				out = append(out, byte(r.Intn(4)))
			}
		}
	}
	return out[:n]
}

func genTwoRunReset(seed int64, n int, tier string) []Script {
	r := rand.New(rand.NewSource(seed))
	maxB := 200
	var out []Script
	for i := 0; i < n; i++ {
		kind := parserKinds[i%len(parserKinds)]
		cfg := genParserCfg(r, kind, maxB)
		B := int(num(cfg["BufferSize"]))
		mode := "reset"
		if i%5 == 4 {
			mode = "det"
		}
		cfg["mode"] = mode
		pre, _ := genInput(r, 1+r.Intn(250))
		data := relatedInput(r, pre, r.Intn(200))
		tags := []string{"go", kind, mode}
		margin := kind != "GSAP" && kind != "OSAP" && mode == "reset" && r.Intn(2) == 0
		if margin {
			// What lies behind the end of the data (the 7-byte margin the
			// 8-byte loads read) must not matter: the history fills the
			// whole buffer with non-zero bytes, the compared data is short,
			// repetitive and arrives in small pieces that are parsed at
			// once, so that matches and skips end exactly at the end of the
			// data again and again.
			B = pickInt(r, 64, 100, 150, 200)
			cfg["BufferSize"], cfg["ShrinkSize"], cfg["WindowSize"] = B, B/2, pickInt(r, B, 2*B)
			cfg["BlockSize"] = pickInt(r, 32, 64, B)
			switch kind {
			case "DHP", "BDHP":
				il1 := pickInt(r, 2, 3, 3)
				cfg["InputLen1"], cfg["HashBits1"] = il1, pickInt(r, 6, 8, 10)
				cfg["InputLen2"], cfg["HashBits2"] = il1+1+r.Intn(4), pickInt(r, 6, 8, 10)
			default:
				// few hash bits: an entry made from bytes behind the data
				// lands on a slot the following data needs
				cfg["InputLen"], cfg["HashBits"] = pickInt(r, 3, 3, 4, 5, 8), pickInt(r, 2, 3, 4, 6, 10)
			}
			pre = make([]byte, B+r.Intn(B))
			for j := range pre {
				pre[j] = byte(0x80 + r.Intn(0x7f))
			}
			k := 2 + r.Intn(2)
			pat := make([]byte, 3+r.Intn(6))
			for j := range pat {
				pat[j] = byte('a' + r.Intn(k))
			}
			data = make([]byte, 20+r.Intn(B-19))
			for j := range data {
				data[j] = pat[j%len(pat)]
				if r.Intn(9) == 0 {
					data[j] = byte('a' + r.Intn(k))
				}
			}
			tags = append(tags, "margin")
		}
		var ops []map[string]any
		if mode == "det" {
			all := suffixOps(r, append(append([]byte{}, pre...), data...), B)
			ops = append(ops, map[string]any{"op": "run", "run": "R"}, map[string]any{"op": "sync"})
			ops = append(ops, all...)
			ops = append(ops, map[string]any{"op": "run", "run": "X1"}, map[string]any{"op": "sync"})
			ops = append(ops, all...)
		} else {
			// Reset with nil or with a first part of the data
			var reset map[string]any
			rest := data
			if r.Intn(2) == 0 {
				reset = map[string]any{"op": "reset"}
			} else {
				k := r.Intn(B + 1)
				if k > len(data) {
					k = len(data)
				}
				reset = map[string]any{"op": "reset", "data": B2(data[:k]), "cap": pickInt(r, 0, 3, 7, 8, 20, B+8)}
				rest = data[k:]
				tags = append(tags, "resetdata")
			}
			suf := suffixOps(r, rest, B)
			staleNTL := false
			staleLong := (kind == "DHP" || kind == "BDHP") && !margin && r.Intn(2) == 0
			if staleLong {
				// A long-gram entry that survives Reset: the history has the
				// long gram L at position q; the new data has other bytes at
				// q, the short prefix of L early on and L itself behind q. A
				// surviving entry (q, L) sends the lookup to q, the comparison
				// fails and the short-gram match is never tried.
				il1 := pickInt(r, 2, 3)
				il2 := il1 + 1
				B = pickInt(r, 100, 150, 200)
				cfg["BufferSize"], cfg["ShrinkSize"], cfg["WindowSize"], cfg["BlockSize"] = B, B/2, 2*B, pickInt(r, 32, 64, B)
				cfg["InputLen1"], cfg["HashBits1"], cfg["InputLen2"], cfg["HashBits2"] = il1, 10, il2, 12
				L := make([]byte, il2)
				for j := range L {
					L[j] = byte('A' + j)
				}
				q := 15 + r.Intn(20)
				fill := func(n int) []byte {
					out := make([]byte, n)
					for j := range out {
						out[j] = byte('a' + r.Intn(20))
					}
					return out
				}
				pre = append(append(fill(q), L...), fill(10+r.Intn(20))...)
				nd := fill(5)
				nd = append(nd, L[:il1]...)
				nd = append(nd, byte('z'))
				nd = append(nd, fill(q+3+r.Intn(10)-len(nd))...)
				nd = append(nd, L...)
				nd = append(nd, fill(8)...)
				op := pumpOp(r, nd, B, "mixed")
				op["chunk"], op["mode"], op["pearly"], op["pprobe"], op["pnil"], op["pntl"] = len(nd)+1, "write", 0, 0, 0, 0
				suf = []map[string]any{op}
				reset = map[string]any{"op": "reset"}
				tags = append(tags, "stale-long-gram")
				if r.Intn(2) == 0 {
					// the same entry, but lying *behind* the parse position when
					// Reset comes: the history starts with a repeat (one match,
					// ending at 12) and is parsed once with NoTrailingLiterals,
					// so W = 12 while the dictionary holds positions up to the
					// end of the data. A Reset that forgets only what lies in
					// front of W keeps (q, L), 12 bytes further down.
					cfg["BlockSize"] = B
					pre = append([]byte("abcabcabcabc"), pre...)
					staleNTL = true
					tags = append(tags, "stale-behind-w")
				}
			}
			staleGram := (kind == "HP" || kind == "BHP") && !margin && r.Intn(2) == 0
			if staleGram {
				// A gram entry that survives Reset(data): the history has the
				// 4-byte gram L at position q; the new data has its first three
				// bytes with another fourth byte at q and L itself later. A
				// surviving entry sends the lookup of L to q and yields a
				// 3-byte match a new parser cannot find.
				B = pickInt(r, 100, 150, 200)
				cfg["BufferSize"], cfg["ShrinkSize"], cfg["WindowSize"], cfg["BlockSize"] = B, B/2, 2*B, pickInt(r, 32, 64, B)
				cfg["InputLen"], cfg["HashBits"] = 4, pickInt(r, 10, 12, 16)
				L := []byte{'A', 'B', 'C', 'D'}
				q := 15 + r.Intn(20)
				fill := func(n int) []byte {
					out := make([]byte, n)
					for j := range out {
						out[j] = byte('a' + r.Intn(20))
					}
					return out
				}
				pre = append(append(fill(q), L...), fill(10+r.Intn(20))...)
				nd := append(fill(q), 'A', 'B', 'C', 'x')
				nd = append(nd, fill(6+r.Intn(10))...)
				nd = append(nd, L...)
				nd = append(nd, fill(8)...)
				k := q + 4 + r.Intn(4)
				reset = map[string]any{"op": "reset", "data": B2(nd[:k]), "cap": pickInt(r, 0, 0, 3)}
				op := pumpOp(r, nd[k:], B, "mixed")
				op["chunk"], op["mode"], op["pearly"], op["pprobe"], op["pnil"], op["pntl"], op["pstop"] = len(nd)+1, "write", 0, 0, 0, 0, 0
				suf = []map[string]any{op}
				tags = append(tags, "stale-gram")
			}
			if staleLong || staleGram {
			} else if (kind == "DHP" || kind == "BDHP") && margin && r.Intn(2) == 0 {
				// The last hashed position of a segment: its stored value may
				// include bytes behind the data. Part A ends with a gram G and
				// is skipped with Parse(nil) (the dictionary is filled up to
				// the end of the data); part B repeats G: a new parser finds
				// the entry, and so must a reset one, whatever lies behind A.
				// (with InputLen2 = 3 the position three bytes before the end is
				// hashed with a 4-byte value, and the next Parse re-hashes only
				// the last two positions)
				cfg["InputLen1"], cfg["InputLen2"] = 2, 3
				G := make([]byte, 3)
				for j := range G {
					G[j] = byte('p' + r.Intn(4))
				}
				a := make([]byte, 10+r.Intn(40))
				for j := range a {
					a[j] = byte('a' + r.Intn(3))
				}
				a = append(a, G...)
				b := []byte{byte('a' + r.Intn(3)), byte('a' + r.Intn(3))}
				b = append(b, G...)
				for j := 0; j < 5+r.Intn(10); j++ {
					b = append(b, byte('a'+r.Intn(3)))
				}
				suf = []map[string]any{{"op": "write", "p": B2(a)}}
				for j := 0; j < 1+len(a)/int(maxI(1, int(num(cfg["BlockSize"])))); j++ {
					suf = append(suf, map[string]any{"op": "parsenil"})
				}
				suf = append(suf, map[string]any{"op": "write", "p": B2(b)})
				for j := 0; j < 2+len(b)/int(maxI(1, int(num(cfg["BlockSize"])))); j++ {
					suf = append(suf, map[string]any{"op": "parse", "flags": 0})
				}
				tags = append(tags, "margin-lastgram")
			} else if margin {
				op := pumpOp(r, rest, B, "mixed")
				op["chunk"], op["mode"], op["pearly"], op["pprobe"] = 3+r.Intn(18), "write", 100, 0
				op["pnil"], op["pntl"] = pickInt(r, 0, 30), pickInt(r, 0, 0, 50)
				suf = []map[string]any{op}
			}
			// R: fresh parser, same Reset, same calls
			ops = append(ops, map[string]any{"op": "run", "run": "R"}, reset, map[string]any{"op": "sync"})
			ops = append(ops, suf...)
			// X1: parser with a history (fills, shrinks), Reset, same calls
			ops = append(ops, map[string]any{"op": "run", "run": "X1"})
			hist := pumpOp(r, pre, B, "mixed")
			if staleLong || staleGram {
				hist["chunk"], hist["mode"], hist["pearly"], hist["pnil"], hist["pprobe"], hist["pstop"] = len(pre)+1, "write", 0, 0, 0, 0
			}
			if staleNTL {
				ops = append(ops, map[string]any{"op": "write", "p": B2(pre)}, map[string]any{"op": "parse", "flags": 1})
			} else {
				ops = append(ops, hist)
			}
			if !staleNTL && r.Intn(3) == 0 {
				pre2, _ := genInput(r, r.Intn(80))
				ops = append(ops, map[string]any{"op": "write", "p": B2(pre2)})
			}
			ops = append(ops, reset, map[string]any{"op": "sync"})
			ops = append(ops, suf...)
		}
		out = append(out, Script{Tid: "tworun-" + mode + "-" + itoa(seed) + "-" + itoa(int64(i)), Comp: "tworun",
			Cfg: cfg, Ops: ops, Tags: tags})
	}
	return out
}

// genTwoRunChunk: the same source through WrappedParsers with different
// reader chunkings (no faults): the block sequences must be identical.
func genTwoRunChunk(seed int64, n int, tier string) []Script {
	r := rand.New(rand.NewSource(seed))
	var out []Script
	for i := 0; i < n; i++ {
		kind := parserKinds[i%len(parserKinds)]
		cfg := genParserCfg(r, kind, 200)
		cfg["mode"] = "chunk"
		cfg["wrap"] = true
		B := int(num(cfg["BufferSize"]))
		data, class := genInput(r, genWrapInputLen(r, B, int(num(cfg["BlockSize"])), 400))
		pump := map[string]any{"op": "wpump", "seed": r.Intn(1 << 30), "pntl": pickInt(r, 0, 0, 30, 100), "pnil": pickInt(r, 0, 0, 20)}
		var ops []map[string]any
		names := []string{"R", "X1", "X2"}
		for j, nm := range names {
			var calls []any
			eofWith := false
			if j == 0 {
				calls = []any{} // whole reads
			} else {
				calls, eofWith = genReaderCalls(r, len(data), false)
			}
			ops = append(ops, map[string]any{"op": "run", "run": nm, "src": B2(data), "rcalls": calls, "eofwith": eofWith},
				map[string]any{"op": "sync"}, pump)
		}
		out = append(out, Script{Tid: "tworun-chunk-" + itoa(seed) + "-" + itoa(int64(i)), Comp: "tworun",
			Cfg: cfg, Ops: ops, Tags: []string{"go", kind, "chunk", class}})
	}
	return out
}

// genTwoRunAdjacent: chunk-wise use of one array by two parser instances. The
// compared parser is Reset with the second chunk (zero copy: the slice has
// spare capacity), then a second instance is Reset with the chunk in front of
// it - whose capacity reaches over the first parser's data. The first parser
// must emit what a parser without such a neighbour emits.
func genTwoRunAdjacent(seed int64, n int, tier string) []Script {
	r := rand.New(rand.NewSource(seed))
	var out []Script
	for i := 0; i < n; i++ {
		kind := parserKinds[i%len(parserKinds)]
		cfg := genParserCfg(r, kind, 200)
		cfg["mode"] = "reset"
		B := int(num(cfg["BufferSize"]))
		if B < 8 {
			B = 8 + r.Intn(40)
			cfg["BufferSize"], cfg["ShrinkSize"] = B, B/2
		}
		chunk0, _ := genInput(r, 1+r.Intn(B))
		chunk1 := relatedInput(r, chunk0, 1+r.Intn(B))
		// the head of chunk1 should be matchable later in chunk1
		if len(chunk1) > 12 {
			copy(chunk1[len(chunk1)-6:], chunk1[:6])
		}
		reset := map[string]any{"op": "reset", "data": B2(chunk1), "front": B2(chunk0), "cap": pickInt(r, 7, 8, 16, 40)}
		var parse []map[string]any
		for k := 0; k < 6; k++ {
			parse = append(parse, map[string]any{"op": "parse", "flags": pickInt(r, 0, 0, 1)})
		}
		ops := []map[string]any{{"op": "run", "run": "R"}, reset, {"op": "sync"}}
		ops = append(ops, parse...)
		ops = append(ops, map[string]any{"op": "run", "run": "X"}, reset, map[string]any{"op": "neighbour"}, map[string]any{"op": "sync"})
		ops = append(ops, parse...)
		out = append(out, Script{Tid: "tworun-adjacent-" + itoa(seed) + "-" + itoa(int64(i)), Comp: "tworun",
			Cfg: cfg, Ops: ops, Tags: []string{"go", kind, "reset", "adjacent"}})
	}
	return out
}

// genTwoRunWReset: WrappedParser.Reset must make the wrapper equivalent to a
// new one. Reference run: a new wrapper over stream 2. Compared run: a wrapper
// with a history over stream 1 - reader faults with and without data, the
// last one possibly right before the pump is stopped, drained to io.EOF or
// left in the middle - then Reset(reader of stream 2) and the same pump.
func genTwoRunWReset(seed int64, n int, tier string) []Script {
	r := rand.New(rand.NewSource(seed))
	var out []Script
	for i := 0; i < n; i++ {
		kind := parserKinds[i%len(parserKinds)]
		cfg := genParserCfg(r, kind, 200)
		cfg["mode"] = "reset"
		cfg["wrap"] = true
		cfg["reuse"] = r.Intn(2) == 0
		B := int(num(cfg["BufferSize"]))
		Blk := int(num(cfg["BlockSize"]))
		d1, _ := genInput(r, 1+genWrapInputLen(r, B, Blk, 300))
		d2 := relatedInput(r, d1, 1+genWrapInputLen(r, B, Blk, 300))
		c2, e2 := genReaderCalls(r, len(d2), false)
		pump2 := map[string]any{"op": "wpump", "seed": r.Intn(1 << 30), "pntl": pickInt(r, 0, 0, 30), "pnil": 0}
		// history: a few reads, then a fault (with or without data), then more
		var c1 []any
		pos := 0
		for k := 0; k < r.Intn(4); k++ {
			c := 1 + r.Intn(B+8)
			c1 = append(c1, []any{c, ""})
			pos += c
		}
		c1 = append(c1, []any{pickInt(r, 0, 1, 5, B), pickStr(r, "reader", "reader2")})
		if r.Intn(2) == 0 {
			c1 = append(c1, []any{1000, ""})
		}
		hist := map[string]any{"op": "wpump", "seed": r.Intn(1 << 30), "pntl": pickInt(r, 0, 50), "pnil": pickInt(r, 0, 0, 20)}
		switch r.Intn(3) {
		case 0:
			hist["budget"] = 1 + r.Intn(4) // stopped early: possibly right at the fault
		case 1:
			hist["budget"] = 2 + len(c1)
		}
		ops := []map[string]any{
			{"op": "run", "run": "R", "src": B2(d2), "rcalls": c2, "eofwith": e2}, {"op": "sync"}, pump2,
			{"op": "run", "run": "X", "src": B2(d1), "rcalls": c1, "eofwith": r.Intn(2) == 0}, hist,
			{"op": "wreset", "src": B2(d2), "rcalls": c2, "eofwith": e2}, {"op": "sync"}, pump2,
		}
		out = append(out, Script{Tid: "tworun-wreset-" + itoa(seed) + "-" + itoa(int64(i)), Comp: "tworun",
			Cfg: cfg, Ops: ops, Tags: []string{"go", kind, "reset", "wrapreset"}})
	}
	return out
}

// genTwoRunConc: one reference run, then K identical runs executed
// concurrently on distinct instances next to busy parsers and decoders.
func genTwoRunConc(seed int64, n int, tier string) []Script {
	r := rand.New(rand.NewSource(seed))
	var out []Script
	for i := 0; i < n; i++ {
		kind := parserKinds[i%len(parserKinds)]
		cfg := genParserCfg(r, kind, 200)
		cfg["mode"] = "conc"
		cfg["conc"] = 8
		cfg["nseed"] = r.Intn(1 << 20)
		B := int(num(cfg["BufferSize"]))
		data, class := genInput(r, 50+r.Intn(350))
		suf := suffixOps(r, data, B)
		var ops []map[string]any
		for j := 0; j <= 8; j++ {
			nm := "R"
			if j > 0 {
				nm = "X" + itoa(int64(j))
			}
			ops = append(ops, map[string]any{"op": "run", "run": nm}, map[string]any{"op": "sync"})
			ops = append(ops, suf...)
		}
		out = append(out, Script{Tid: "tworun-conc-" + itoa(seed) + "-" + itoa(int64(i)), Comp: "tworun",
			Cfg: cfg, Ops: ops, Tags: []string{"go", kind, "conc", class}})
	}
	return out
}

// genTwoRunCfg: a parser and a parser built from its reported configuration.
func genTwoRunCfg(seed int64, n int, tier string) []Script {
	r := rand.New(rand.NewSource(seed))
	var out []Script
	for i := 0; i < n; i++ {
		kind := parserKinds[i%len(parserKinds)]
		cfg := genParserCfg(r, kind, 200)
		// leave more fields to the defaults than the general generator does
		for _, k := range []string{"ShrinkSize", "WindowSize", "BlockSize", "HashBits", "HashBits1", "HashBits2",
			"InputLen", "MinMatchLen", "MaxMatchLen", "BucketSize"} {
			if _, ok := cfg[k]; ok && r.Intn(3) == 0 {
				cfg[k] = 0
			}
		}
		cfg["mode"] = "cfg"
		B := int(num(cfg["BufferSize"]))
		data, class := genInput(r, 30+r.Intn(370))
		suf := suffixOps(r, data, B)
		var ops []map[string]any
		ops = append(ops, map[string]any{"op": "run", "run": "R"}, map[string]any{"op": "sync"})
		ops = append(ops, suf...)
		ops = append(ops, map[string]any{"op": "run", "run": "X1", "fromreported": true}, map[string]any{"op": "sync"})
		ops = append(ops, suf...)
		out = append(out, Script{Tid: "tworun-cfg-" + itoa(seed) + "-" + itoa(int64(i)), Comp: "tworun",
			Cfg: cfg, Ops: ops, Tags: []string{"go", kind, "cfg", class}})
	}
	return out
}

func init() {
	generators["tworun-wreset"] = genTwoRunWReset
	generators["tworun-adjacent"] = genTwoRunAdjacent
	generators["tworun-cfg"] = genTwoRunCfg
	components["tworun"] = runTwoRun
	generators["tworun-reset"] = genTwoRunReset
	generators["tworun-chunk"] = genTwoRunChunk
	generators["tworun-conc"] = genTwoRunConc
}
