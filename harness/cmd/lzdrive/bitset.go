package main

import (
	"math/rand"
	"sort"

	"github.com/ulikunitz/lz"
)

// Component "bitset": the search set of the greedy suffix array parser,
// reached through the verif-tagged VerifBitset hook. After every operation
// the event lists all members (by walking memberAfter from -1) and the
// answers of memberBefore / memberAfter for the probe positions.

func runBitset(s *Script, rec *Rec) {
	var v lz.VerifBitset
	var probes []int
	if p, ok := s.Cfg["probes"].([]any); ok {
		for _, x := range p {
			probes = append(probes, int(num(x)))
		}
	}
	rec.Emit(Event{"op": "begin", "tid": s.Tid, "comp": "bitset"})
	defer rec.Emit(Event{"op": "end"})
	for _, op := range s.Ops {
		name := str(op["op"])
		i := int(num(op["i"]))
		ok := rec.Call(name, func() {
			switch name {
			case "insert":
				v.Insert(i)
			case "delete":
				v.Delete(i)
			case "clear":
				v.Clear()
			default:
				panic("lzdrive: bitset: unknown op " + name)
			}
		})
		if !ok {
			return
		}
		e := Event{"op": name, "i": i, "probes": probes}
		members := []int{}
		before := make([]int, len(probes))
		after := make([]int, len(probes))
		ok = rec.Call("query", func() {
			j, found := v.MemberAfter(-1)
			for found && len(members) < 100000 {
				members = append(members, j)
				j, found = v.MemberAfter(j)
			}
			for k, p := range probes {
				b, okb := v.MemberBefore(p)
				if !okb {
					b = -1
				}
				a, oka := v.MemberAfter(p)
				if !oka {
					a = -1
				}
				before[k], after[k] = b, a
			}
		})
		if !ok {
			return
		}
		words, off, capacity := v.Layout()
		e["members"], e["before"], e["after"] = members, before, after
		e["nwords"], e["off"], e["cap"] = len(words), off, capacity
		rec.Emit(e)
	}
}

// genBitset: longer random histories over positions around word boundaries,
// with clear() in between (the backing array is reused and grows downwards).
func genBitset(seed int64, n int, tier string) []Script {
	r := rand.New(rand.NewSource(seed))
	var out []Script
	for i := 0; i < n; i++ {
		base := []int{0, 1, 62, 63, 64, 65, 127, 128, 129, 191, 192, 255, 256, 300, 511, 512, 1000}
		var pos []int
		for j := 0; j < 6+r.Intn(8); j++ {
			pos = append(pos, base[r.Intn(len(base))]+64*r.Intn(3))
		}
		probeSet := map[int]bool{}
		for _, p := range pos {
			probeSet[p], probeSet[p+1] = true, true
			if p > 0 {
				probeSet[p-1] = true
			}
		}
		var probes []int
		for p := range probeSet {
			probes = append(probes, p)
		}
		sort.Ints(probes)
		var ops []map[string]any
		for j := 0; j < 10+r.Intn(40); j++ {
			switch x := r.Intn(10); {
			case x < 6:
				ops = append(ops, map[string]any{"op": "insert", "i": pos[r.Intn(len(pos))]})
			case x < 9:
				ops = append(ops, map[string]any{"op": "delete", "i": pos[r.Intn(len(pos))]})
			default:
				ops = append(ops, map[string]any{"op": "clear"})
			}
		}
		out = append(out, Script{Tid: "bitset-" + itoa(seed) + "-" + itoa(int64(i)), Comp: "bitset",
			Cfg: map[string]any{"probes": probes}, Ops: ops, Tags: []string{"go", "bitset"}})
	}
	return out
}

func init() {
	components["bitset"] = runBitset
	generators["bitset"] = genBitset
}
