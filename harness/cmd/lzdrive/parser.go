package main

import (
	"errors"
	"fmt"
	"io"
	"reflect"
	"strings"

	"github.com/ulikunitz/lz"
)

// newConfig builds a parser configuration of the given kind from script
// fields (real field names; absent or zero fields mean "default").
func newConfig(kind string, f map[string]any) lz.ParserConfig {
	var cfg lz.ParserConfig
	switch kind {
	case "HP":
		cfg = &lz.HPConfig{}
	case "BHP":
		cfg = &lz.BHPConfig{}
	case "DHP":
		cfg = &lz.DHPConfig{}
	case "BDHP":
		cfg = &lz.BDHPConfig{}
	case "BUP":
		cfg = &lz.BUPConfig{}
	case "GSAP":
		cfg = &lz.GSAPConfig{}
	case "OSAP":
		cfg = &lz.OSAPConfig{}
	default:
		panic("lzdrive: unknown parser kind " + kind)
	}
	v := reflect.ValueOf(cfg).Elem()
	for name, val := range f {
		fv := v.FieldByName(name)
		if !fv.IsValid() {
			continue
		}
		switch fv.Kind() {
		case reflect.Int:
			fv.SetInt(num(val))
		case reflect.String:
			fv.SetString(str(val))
		}
	}
	return cfg
}

// cfgFields returns the exported int/string fields of a configuration.
func cfgFields(cfg lz.ParserConfig) map[string]any {
	out := map[string]any{}
	v := reflect.Indirect(reflect.ValueOf(cfg))
	t := v.Type()
	for i := 0; i < v.NumField(); i++ {
		switch v.Field(i).Kind() {
		case reflect.Int:
			out[t.Field(i).Name] = v.Field(i).Int()
		case reflect.String:
			out[t.Field(i).Name] = v.Field(i).String()
		}
	}
	return out
}

func fieldInt(m map[string]any, names ...string) int64 {
	for _, n := range names {
		if v, ok := m[n]; ok {
			if i, ok := v.(int64); ok {
				return i
			}
		}
	}
	return 0
}

// specCfg is the configuration record the TLA+ specification works with,
// read back from the parser (zero request fields mean defaults).
func specCfg(kind string, p lz.Parser) map[string]any {
	bc := p.BufferConfig()
	f := cfgFields(p.ParserConfig())
	return map[string]any{
		"kind": kind,
		"B":    bc.BufferSize, "S": bc.ShrinkSize, "Wnd": satInt(bc.WindowSize), "Blk": satInt(bc.BlockSize),
		"il": fieldInt(f, "InputLen", "InputLen1"),
		"mm": satInt(int(fieldInt(f, "MinMatchLen"))),
		"xm": satInt(int(fieldInt(f, "MaxMatchLen"))),
	}
}

// satOff saturates a probe offset for the recording (TLC integers are 32
// bit); offsets that far away are outside every retained range on either
// side, and saturation keeps them there.
func satOff(off int64) int64 {
	const lim = 1 << 30
	if off > lim {
		return lim
	}
	if off < -lim {
		return -lim
	}
	return off
}

func satInt(i int) int64 {
	if i > 1<<29 {
		return 1 << 29
	}
	return int64(i)
}

// pErr classifies an error of the parser API.
func pErr(err error) string {
	switch {
	case err == nil:
		return ""
	case errors.Is(err, lz.ErrEmptyBuffer):
		return "empty"
	case errors.Is(err, lz.ErrFullBuffer):
		return "full"
	case errors.Is(err, lz.ErrOutOfBuffer):
		return "outofbuffer"
	case errors.Is(err, lz.ErrEndOfBuffer):
		return "endofbuffer"
	case err == io.EOF:
		return "eof"
	case err == errHarnessReader:
		return "reader"
	case err == errHarnessReader2:
		return "reader2"
	case strings.Contains(err.Error(), "larger than BufferSize"):
		return "oversize"
	default:
		return "other:" + err.Error()
	}
}

// scriptReader is an io.Reader with scripted behaviour: call i hands out at
// most calls[i].max bytes of src and returns calls[i].err together with them.
// Beyond the script it hands out what is left and then io.EOF. It never
// returns (0, nil). Every call is logged.
type scriptReader struct {
	src   []byte
	calls [][2]any // max (int), err ("", "eof", "reader", "reader2")
	i     int
	log   []any
	idle  int
}

func classErr(c string) error {
	switch c {
	case "":
		return nil
	case "eof":
		return io.EOF
	case "reader":
		return errHarnessReader
	case "reader2":
		return errHarnessReader2
	}
	panic("lzdrive: bad reader error class " + c)
}

func (r *scriptReader) Read(p []byte) (int, error) {
	max, ec := len(p), ""
	if r.i < len(r.calls) {
		max = int(num(r.calls[r.i][0]))
		ec = str(r.calls[r.i][1])
		r.i++
	} else if len(r.src) == 0 {
		ec = "eof"
	}
	k := len(r.src)
	if k > max {
		k = max
	}
	if k > len(p) {
		k = len(p)
	}
	copy(p, r.src[:k])
	r.src = r.src[k:]
	err := classErr(ec)
	if k == 0 && err == nil {
		if len(r.src) == 0 {
			err = io.EOF
		} else if len(p) > 0 {
			// max == 0 with data left: hand out one byte rather than (0, nil)
			k = 1
			copy(p, r.src[:1])
			r.src = r.src[1:]
		}
	}
	if len(p) == 0 && err == nil {
		r.idle++
		if r.idle >= 8 {
			panic(livelock{in: "reader called 8 times in a row with an empty slice"})
		}
	} else {
		r.idle = 0
	}
	r.log = append(r.log, []any{len(p), k, pErr(err), B(p[:k])})
	return k, err
}

func readerFromOp(op map[string]any) *scriptReader {
	r := &scriptReader{src: bytesOf(op["src"])}
	if v, ok := op["calls"]; ok && v != nil {
		for _, x := range v.([]any) {
			t := x.([]any)
			r.calls = append(r.calls, [2]any{t[0], t[1]})
		}
	}
	return r
}

var junkSeqs = []lz.Seq{{LitLen: 7, MatchLen: 7, Offset: 7, Aux: 7}, {LitLen: 9, MatchLen: 9, Offset: 9, Aux: 9}}
var junkLits = []byte{0xde, 0xad, 0xbe, 0xef}

// pdrv drives one parser and keeps the counters needed to place probes
// (accepted and discarded bytes as reported by the parser itself).
type pdrv struct {
	// blk is reused for every Parse call when reuse is set (the usual way to
	// call a parser); otherwise every call gets a fresh junk-filled block
	blk   lz.Block
	reuse bool
	p     lz.Parser
	rec   *Rec
	acc  int64 // bytes accepted since Reset
	disc int64 // bytes discarded since Reset
	w    int64 // bytes parsed or skipped since Reset (as reported by the parser)
	run  string
	// arr / front: the array a Reset(data) slice was carved from and the
	// number of bytes in front of it (a neighbouring chunk of the same
	// array, handed to another parser by the "neighbour" op)
	arr   []byte
	front int
}

func (d *pdrv) ev(e Event) Event {
	if d.run != "" {
		e["run"] = d.run
	}
	return e
}

func (d *pdrv) probeOff(op map[string]any) int64 {
	if v, ok := op["off"]; ok {
		return num(v)
	}
	base := d.disc
	if str(op["rel"]) == "end" {
		base = d.acc
	}
	return base + num(op["d"]) + num(op["far"])<<32
}

// do executes one script operation; it reports false if the script must stop.
func (d *pdrv) do(op map[string]any) bool {
	name := str(op["op"])
	rec := d.rec
	p := d.p
	switch name {
	case "write":
		b := bytesOf(op["p"])
		var n int
		var err error
		if !rec.Call(name, func() { n, err = p.Write(b) }) {
			return false
		}
		d.acc += int64(n)
		rec.Emit(d.ev(Event{"op": name, "p": B(b), "n": n, "err": pErr(err)}))
	case "readfrom":
		r := readerFromOp(op)
		var n int64
		var err error
		if !rec.Call(name, func() { n, err = p.ReadFrom(r) }) {
			return false
		}
		d.acc += n
		if r.log == nil {
			r.log = []any{}
		}
		rec.Emit(d.ev(Event{"op": name, "calls": r.log, "n": n, "err": pErr(err)}))
	case "parse":
		flags := int(num(op["flags"]))
		fresh := lz.Block{Sequences: append([]lz.Seq{}, junkSeqs...), Literals: append([]byte{}, junkLits...)}
		blk := &fresh
		if d.reuse || boolean(op["reuse"]) {
			if d.blk.Sequences == nil {
				d.blk = fresh
			}
			blk = &d.blk
			// an upper layer may use Aux of the sequences it was given
			for i := range blk.Sequences {
				blk.Sequences[i].Aux = 7
			}
		}
		var n int
		var err error
		if !rec.Call(name, func() { n, err = p.Parse(blk, flags) }) {
			return false
		}
		e := Event{"op": name, "flags": flags, "n": n, "err": pErr(err),
			"seqs": seqsJSON(blk.Sequences), "lits": B(blk.Literals)}
		if boolean(op["witness"]) && err == nil && n > 0 {
			if alt := d.greedyWitness(n); alt != nil {
				e["alt"] = alt
			}
		}
		if boolean(op["cw"]) && err == nil && n > 0 {
			e["cw"] = d.longerMatches(n, blk)
		}
		if err == nil && n > 0 {
			d.w += int64(n)
		}
		rec.Emit(d.ev(e))
	case "parsenil":
		var n int
		var err error
		if !rec.Call(name, func() { n, err = p.Parse(nil, int(num(op["flags"]))) }) {
			return false
		}
		if err == nil && n > 0 {
			d.w += int64(n)
		}
		rec.Emit(d.ev(Event{"op": name, "n": n, "err": pErr(err)}))
	case "shrink":
		var delta int
		if !rec.Call(name, func() { delta = p.Shrink() }) {
			return false
		}
		d.disc += int64(delta)
		rec.Emit(d.ev(Event{"op": name, "delta": delta}))
	case "reset":
		b := bytesOf(op["data"])
		extra := int(num(op["cap"]))
		var data []byte
		if _, has := op["data"]; has {
			fr := bytesOf(op["front"])
			arr := make([]byte, len(fr)+len(b), len(fr)+len(b)+extra)
			copy(arr, fr)
			copy(arr[len(fr):], b)
			data = arr[len(fr):]
			d.arr, d.front = arr[:cap(arr)], len(fr)
			// whatever lies behind len(data) is the caller's garbage
			g := data[len(b):cap(data)]
			for i := range g {
				g[i] = byte(0xa5 + i)
			}
		}
		var err error
		if !rec.Call(name, func() { err = p.Reset(data) }) {
			return false
		}
		if err == nil {
			d.acc, d.disc, d.w = int64(len(b)), 0, 0
		}
		rec.Emit(d.ev(Event{"op": name, "data": B(b), "cap": extra, "err": pErr(err)}))
	case "neighbour":
		// chunk-wise use of one array: another parser instance of the same
		// configuration is Reset with (and parses) the chunk in FRONT of
		// this parser's data. Nothing of it is recorded: what matters is
		// that this parser behaves as if the neighbour did not exist.
		if d.arr != nil && d.front > 0 {
			rec.Call(name, func() {
				p0, err := p.ParserConfig().NewParser()
				if err != nil {
					return
				}
				if p0.Reset(d.arr[:d.front]) == nil {
					var blk lz.Block
					p0.Parse(&blk, 0)
				}
			})
		}
	case "readat":
		off := d.probeOff(op)
		lenp := int(num(op["lenp"]))
		q := make([]byte, lenp)
		var n int
		var err error
		if !rec.Call(name, func() { n, err = p.ReadAt(q, off) }) {
			return false
		}
		if n < 0 || n > lenp {
			n = 0
		}
		rec.Emit(d.ev(Event{"op": name, "off": satOff(off), "lenp": lenp, "n": n, "err": pErr(err), "bytes": B(q[:n])}))
	case "byteat":
		off := d.probeOff(op)
		var c byte
		var err error
		if !rec.Call(name, func() { c, err = p.ByteAt(off) }) {
			return false
		}
		rec.Emit(d.ev(Event{"op": name, "off": satOff(off), "c": int(c), "err": pErr(err)}))
	case "pump":
		return d.pump(op)
	default:
		panic("lzdrive: parser: unknown op " + name)
	}
	return true
}

// pump is the standard usage loop as one script operation: feed data in
// chunks (Write or ReadFrom), parse blocks until the buffer is empty
// whenever it is full (or at random), shrink, continue; finally drain. All
// decisions depend only on the op's parameters, a PRNG seeded by the op and
// the results the parser returns; every inner call is recorded as its own
// event.
func (d *pdrv) pump(op map[string]any) bool {
	data := bytesOf(op["data"])
	chunk := int(num(op["chunk"]))
	if chunk <= 0 {
		chunk = len(data) + 1
	}
	if boolean(op["reuse"]) {
		d.reuse = true
	}
	mode := str(op["mode"]) // "write" | "readfrom"
	rmax := int(num(op["rmax"]))
	pNTL := int(num(op["pntl"]))   // percent of Parse calls with NoTrailingLiterals
	pNil := int(num(op["pnil"]))   // percent of Parse calls with a nil block
	pEarly := int(num(op["pearly"])) // percent chance to parse before the buffer is full
	pProbe := int(num(op["pprobe"]))
	pShrink := int(num(op["pshrink"])) // percent chance of an extra Shrink
	pStop := int(num(op["pstop"]))     // percent chance per block to stop draining early
	rng := newLCG(uint64(num(op["seed"])))
	budget := 6*len(data) + 64
	lastEv := func() Event { return d.rec.last }
	probe := func() bool {
		if rng.pct(pProbe) {
			rel := "off"
			if rng.pct(50) {
				rel = "end"
			}
			dd := int(rng.n(4)) - 2
			far := 0
			if rng.pct(15) {
				far = []int{-1, 1, 2, -2}[rng.n(4)]
			}
			if rng.pct(50) {
				return d.do(map[string]any{"op": "byteat", "rel": rel, "d": dd, "far": far})
			}
			return d.do(map[string]any{"op": "readat", "rel": rel, "d": dd, "lenp": int(rng.n(5)), "far": far})
		}
		return true
	}
	drain := func() bool {
		for budget > 0 {
			budget--
			var o map[string]any
			if pStop > 0 && rng.pct(pStop) {
				return true // leave the rest unparsed: more data arrives first
			}
			if rng.pct(pNil) {
				o = map[string]any{"op": "parsenil", "flags": int(rng.n(2))}
			} else {
				fl := 0
				if rng.pct(pNTL) {
					fl = 1
				}
				o = map[string]any{"op": "parse", "flags": fl}
			}
			if !d.do(o) {
				return false
			}
			e := lastEv()
			if e["err"] != "" {
				return true
			}
			if !probe() {
				return false
			}
		}
		return true
	}
	rest := data
	stuck := 0
	for len(rest) > 0 && budget > 0 && stuck < 3 {
		budget--
		c := rest
		if len(c) > chunk {
			c = c[:chunk]
		}
		var o map[string]any
		if mode == "readfrom" {
			calls := []any{}
			if rmax > 0 {
				for k := 0; k < len(c); k += rmax {
					calls = append(calls, []any{rmax, ""})
				}
			}
			o = map[string]any{"op": "readfrom", "src": B(c), "calls": calls}
		} else {
			o = map[string]any{"op": "write", "p": B(c)}
		}
		if !d.do(o) {
			return false
		}
		e := lastEv()
		n := int(num(e["n"]))
		if n < 0 || n > len(c) {
			return true
		}
		rest = rest[n:]
		if !probe() {
			return false
		}
		if n < len(c) || rng.pct(pEarly) {
			if !drain() {
				return false
			}
			if !d.do(map[string]any{"op": "shrink"}) {
				return false
			}
			if n == 0 && num(lastEv()["delta"]) == 0 {
				stuck++
			} else {
				stuck = 0
			}
			if !probe() {
				return false
			}
		} else if rng.pct(pShrink) {
			if !d.do(map[string]any{"op": "shrink"}) {
				return false
			}
		}
	}
	return drain()
}

// greedyWitness proposes another parse of the block of n bytes that starts
// at the parse position before the call (d.w): at every position the longest
// match with the nearest source inside window and retained buffer, if it
// reaches MinMatchLen, else a literal. It is only a proposal: TLC checks that
// it is a valid parse before it uses its cost as an upper bound (C11). The
// buffer content is read back through ReadAt.
func (d *pdrv) greedyWitness(n int) map[string]any {
	bc := d.p.BufferConfig()
	f := cfgFields(d.p.ParserConfig())
	mm, xm := int(fieldInt(f, "MinMatchLen")), int(fieldInt(f, "MaxMatchLen"))
	if mm < 2 || xm < mm {
		return nil
	}
	buf := make([]byte, d.acc-d.disc)
	if k, _ := d.p.ReadAt(buf, d.disc); k != len(buf) {
		return nil
	}
	w0 := int(d.w - d.disc)
	end := w0 + n
	if w0 < 0 || end > len(buf) {
		return nil
	}
	var seqs [][]int64
	var lits []int
	lit := 0
	for s := w0; s < end; {
		lim := end - s
		if lim > xm {
			lim = xm
		}
		bl, bj := 0, -1
		lo := s - bc.WindowSize
		if lo < 0 {
			lo = 0
		}
		for j := s - 1; j >= lo && bl < lim; j-- {
			l := 0
			for l < lim && buf[j+l] == buf[s+l] {
				l++
			}
			if l > bl {
				bl, bj = l, j
			}
		}
		if bl >= mm {
			seqs = append(seqs, []int64{int64(lit), int64(bl), int64(s - bj), 0})
			lit = 0
			s += bl
		} else {
			lits = append(lits, int(buf[s]))
			lit++
			s++
		}
	}
	if seqs == nil {
		seqs = [][]int64{}
	}
	if lits == nil {
		lits = []int{}
	}
	return map[string]any{"seqs": seqs, "lits": lits}
}

// longerMatches proposes counter-witnesses for the greedy-longest rule (C12)
// on buffers that are too long for TLC's brute-force oracle: for every match
// the block emits, an earlier source with a longer common prefix (clipped at
// the end of the n bytes the parser looked at), and for every literal
// position a source with at least MinMatchLen bytes. Each entry is
// [position, source, length] in absolute stream offsets. They are proposals:
// TLC validates every one (bytes equal, inside the retained buffer) before it
// counts it against the parser.
func (d *pdrv) longerMatches(n int, blk *lz.Block) [][]int64 {
	out := [][]int64{}
	f := cfgFields(d.p.ParserConfig())
	mm := int(fieldInt(f, "MinMatchLen"))
	buf := make([]byte, d.acc-d.disc)
	if k, _ := d.p.ReadAt(buf, d.disc); k != len(buf) {
		return out
	}
	w0 := int(d.w - d.disc)
	// the parser scanned min(BlockSize, unparsed) bytes, possibly more than n
	scan := d.p.BufferConfig().BlockSize
	if scan > len(buf)-w0 {
		scan = len(buf) - w0
	}
	end := w0 + scan
	best := func(s int) (int, int) {
		bl, bj := 0, -1
		for j := 0; j < s; j++ {
			l := 0
			for s+l < end && buf[j+l] == buf[s+l] {
				l++
			}
			if l > bl {
				bl, bj = l, j
			}
		}
		return bl, bj
	}
	pos := w0
	for _, q := range blk.Sequences {
		for k := 0; k < int(q.LitLen); k++ {
			if l, j := best(pos + k); l >= mm && mm >= 2 {
				out = append(out, []int64{int64(pos+k) + d.disc, int64(j) + d.disc, int64(l)})
			}
		}
		pos += int(q.LitLen)
		if l, j := best(pos); l > int(q.MatchLen) {
			out = append(out, []int64{int64(pos) + d.disc, int64(j) + d.disc, int64(l)})
		}
		pos += int(q.MatchLen)
		if len(out) > 8 {
			return out
		}
	}
	for ; pos < w0+n && len(out) <= 8; pos++ {
		if l, j := best(pos); l >= mm && mm >= 2 {
			out = append(out, []int64{int64(pos) + d.disc, int64(j) + d.disc, int64(l)})
		}
	}
	return out
}

// lcg is a small deterministic PRNG for in-driver decisions.
type lcg struct{ s uint64 }

func newLCG(seed uint64) *lcg { return &lcg{s: seed*2862933555777941757 + 3037000493} }
func (l *lcg) n(k int) uint64 {
	l.s = l.s*6364136223846793005 + 1442695040888963407
	if k <= 0 {
		return 0
	}
	return (l.s >> 33) % uint64(k)
}
func (l *lcg) pct(p int) bool { return int(l.n(100)) < p }

// makeParser creates the parser of a script; nil if the configuration is
// not accepted.
func makeParser(s *Script, rec *Rec) (lz.Parser, string) {
	kind := str(s.Cfg["kind"])
	cfg := newConfig(kind, s.Cfg)
	var p lz.Parser
	var err error
	if !rec.Call("newparser", func() { p, err = cfg.NewParser() }) {
		return nil, kind
	}
	if err != nil || p == nil {
		return nil, kind
	}
	return p, kind
}

func runParser(s *Script, rec *Rec) {
	p, kind := makeParser(s, rec)
	if p == nil {
		return
	}
	rec.Emit(Event{"op": "begin", "tid": s.Tid, "comp": "parser", "c": specCfg(kind, p),
		"reported": cfgFields(p.ParserConfig())})
	defer rec.Emit(Event{"op": "end"})
	d := &pdrv{p: p, rec: rec}
	for _, op := range s.Ops {
		if !d.do(op) {
			return
		}
	}
}

func init() {
	components["parser"] = runParser
}

var _ = fmt.Sprint
