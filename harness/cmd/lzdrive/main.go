// lzdrive drives the real ulikunitz/lz code and records what it does.
//
// It contains no expected values: scripts (operation sequences without
// results) go in, ndjson traces (one event per public call, written at the
// call's return) come out. The traces are judged by TLC against the TLA+
// specifications in /verif/spec.
//
//	lzdrive gen  <component> -seed S -n N [-tier quick|thorough] -out scripts.ndjson
//	lzdrive run  -scripts scripts.ndjson -out trace.ndjson      (supervisor; restarts the child after a time-out)
package main

import (
	"bufio"
	"encoding/json"
	"flag"
	"fmt"
	"os"
	"os/exec"
	"strconv"
	"strings"
	"time"
)

func usage() {
	fmt.Fprintln(os.Stderr, "usage: lzdrive gen|run|child ...")
	os.Exit(2)
}

func main() {
	if len(os.Args) < 2 {
		usage()
	}
	switch os.Args[1] {
	case "gen":
		cmdGen(os.Args[2:])
	case "run":
		cmdRun(os.Args[2:])
	case "child":
		cmdChild(os.Args[2:])
	default:
		usage()
	}
}

// Script is one operation sequence for one object.
type Script struct {
	Tid  string           `json:"tid"`
	Comp string           `json:"comp"`
	Cfg  map[string]any   `json:"cfg"`
	Ops  []map[string]any `json:"ops"`
	// Free-form tags used by the orchestrator for coverage statistics.
	Tags []string `json:"tags,omitempty"`
}

func readScripts(path string) ([]Script, error) {
	f, err := os.Open(path)
	if err != nil {
		return nil, err
	}
	defer f.Close()
	var out []Script
	sc := bufio.NewScanner(f)
	sc.Buffer(make([]byte, 1<<20), 1<<28)
	for sc.Scan() {
		line := strings.TrimSpace(sc.Text())
		if line == "" {
			continue
		}
		var s Script
		dec := json.NewDecoder(strings.NewReader(line))
		dec.UseNumber()
		if err := dec.Decode(&s); err != nil {
			return nil, fmt.Errorf("script line: %v", err)
		}
		out = append(out, s)
	}
	return out, sc.Err()
}

// cmdRun is the supervisor: it runs the child over the scripts and restarts
// it behind a script whose call did not return (the child cannot cancel a
// spinning call; it flushes a "timeout" event and exits with status 3).
func cmdRun(args []string) {
	fs := flag.NewFlagSet("run", flag.ExitOnError)
	scripts := fs.String("scripts", "", "script file (ndjson)")
	out := fs.String("out", "", "trace file (ndjson)")
	callTimeout := fs.Duration("call-timeout", 3*time.Second, "watchdog per public call")
	fs.Parse(args)
	if *scripts == "" || *out == "" {
		usage()
	}
	os.Remove(*out)
	start := 0
	for {
		cmd := exec.Command(os.Args[0], "child", "-scripts", *scripts, "-out", *out,
			"-start", strconv.Itoa(start), "-call-timeout", callTimeout.String())
		cmd.Stderr = os.Stderr
		stdout, err := cmd.Output()
		if err == nil {
			return
		}
		ee, ok := err.(*exec.ExitError)
		if !ok || ee.ExitCode() != 3 {
			fmt.Fprintf(os.Stderr, "lzdrive: child failed: %v\n", err)
			os.Exit(2)
		}
		// child printed "NEXT <index>" on stdout
		next := -1
		for _, ln := range strings.Split(string(stdout), "\n") {
			if strings.HasPrefix(ln, "NEXT ") {
				next, _ = strconv.Atoi(strings.TrimSpace(ln[5:]))
			}
		}
		if next <= start {
			fmt.Fprintf(os.Stderr, "lzdrive: child made no progress\n")
			os.Exit(2)
		}
		start = next
	}
}

func cmdChild(args []string) {
	fs := flag.NewFlagSet("child", flag.ExitOnError)
	scripts := fs.String("scripts", "", "")
	out := fs.String("out", "", "")
	start := fs.Int("start", 0, "")
	callTimeout := fs.Duration("call-timeout", 3*time.Second, "")
	fs.Parse(args)
	ss, err := readScripts(*scripts)
	if err != nil {
		fmt.Fprintln(os.Stderr, "lzdrive:", err)
		os.Exit(2)
	}
	f, err := os.OpenFile(*out, os.O_CREATE|os.O_WRONLY|os.O_APPEND, 0o644)
	if err != nil {
		fmt.Fprintln(os.Stderr, "lzdrive:", err)
		os.Exit(2)
	}
	rec := &Rec{w: bufio.NewWriterSize(f, 1<<20)}
	for i := *start; i < len(ss); i++ {
		s := &ss[i]
		done := make(chan struct{})
		rec.watch = newWatch(*callTimeout)
		go func() {
			defer close(done)
			runScript(s, rec)
		}()
		select {
		case <-done:
		case in := <-rec.watch.expired:
			// The call does not return. Its goroutine cannot be stopped:
			// record, flush, and let the supervisor restart behind it.
			rec.mu.Lock()
			rec.emitLocked(Event{"op": "timeout", "in": in})
			rec.emitLocked(Event{"op": "end"})
			rec.w.Flush()
			f.Close()
			fmt.Printf("NEXT %d\n", i+1)
			os.Exit(3)
		}
		rec.watch.stop()
	}
	rec.w.Flush()
	f.Close()
}

func runScript(s *Script, rec *Rec) {
	switch s.Comp {
	case "dbuf":
		runDBuf(s, rec)
	case "dec":
		runDecoder(s, rec)
	default:
		if fn, ok := components[s.Comp]; ok {
			fn(s, rec)
			return
		}
		fmt.Fprintf(os.Stderr, "lzdrive: unknown component %q\n", s.Comp)
		os.Exit(2)
	}
}

// components registered by other files.
var components = map[string]func(*Script, *Rec){}

// generators registered by other files: name -> func(seed, n, tier) []Script
var generators = map[string]func(seed int64, n int, tier string) []Script{}

func cmdGen(args []string) {
	if len(args) < 1 {
		usage()
	}
	comp := args[0]
	fs := flag.NewFlagSet("gen", flag.ExitOnError)
	seed := fs.Int64("seed", 1, "")
	n := fs.Int("n", 100, "")
	tier := fs.String("tier", "quick", "")
	out := fs.String("out", "", "")
	fs.Parse(args[1:])
	g, ok := generators[comp]
	if !ok {
		fmt.Fprintf(os.Stderr, "lzdrive: no generator %q\n", comp)
		os.Exit(2)
	}
	ss := g(*seed, *n, *tier)
	w := bufio.NewWriter(os.Stdout)
	if *out != "" {
		f, err := os.Create(*out)
		if err != nil {
			fmt.Fprintln(os.Stderr, err)
			os.Exit(2)
		}
		defer f.Close()
		w = bufio.NewWriter(f)
	}
	enc := json.NewEncoder(w)
	for i := range ss {
		if err := enc.Encode(&ss[i]); err != nil {
			fmt.Fprintln(os.Stderr, err)
			os.Exit(2)
		}
	}
	w.Flush()
}
