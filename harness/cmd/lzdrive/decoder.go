package main

import (
	"bytes"
	"io"
	"math/rand"

	"github.com/ulikunitz/lz"
)

// schedWriter is the destination writer of a Decoder script. Its behaviour
// per call comes from the script's schedule (index = number of the writer
// call since the script began); beyond the schedule it accepts everything.
// It conforms to io.Writer (a short write always returns an error) and logs
// every call.
type schedWriter struct {
	// accept (<0: all), fail: 0 no, 1 the harness error, 2 io.ErrShortWrite
	// (what a bufio.Writer reports), 3 the device dies: this and every later
	// call returns (0, io.ErrShortWrite)
	sched [][2]int
	calls int
	dead  bool
	// consecutive calls inside one API call that failed without taking a byte
	failedInRow int
	// per API call
	wcalls     []any
	emptyInRow int
	in         string
}

func (w *schedWriter) beginCall(in string) {
	w.wcalls = []any{}
	w.emptyInRow = 0
	w.failedInRow = 0
	w.in = in
}

func (w *schedWriter) Write(p []byte) (int, error) {
	accept, fail, kind := -1, false, 0
	if w.calls < len(w.sched) {
		accept, kind = w.sched[w.calls][0], w.sched[w.calls][1]
		fail = kind != 0
	}
	w.calls++
	if kind == 3 {
		w.dead = true
	}
	k := len(p)
	if accept >= 0 && accept < k {
		k = accept
	}
	var err error
	if k < len(p) || fail {
		err = errHarnessWriter
		if kind == 2 {
			err = io.ErrShortWrite
		}
	}
	if w.dead {
		k, err = 0, io.ErrShortWrite
	}
	// a call that keeps asking a writer which fails without taking a byte
	// never ends either (C06)
	if k == 0 && err != nil {
		w.failedInRow++
		if w.failedInRow >= 50 {
			panic(livelock{in: "writer failed 50 times in a row inside one call without taking a byte"})
		}
	} else {
		w.failedInRow = 0
	}
	w.wcalls = append(w.wcalls, []any{B(p), k, decErr(err)})
	// Repeated-state detection (C06): a retry loop that keeps flushing
	// nothing makes no progress; a deterministic loop that revisits a
	// state never ends.
	if len(p) == 0 && err == nil {
		w.emptyInRow++
		if w.emptyInRow >= 8 {
			panic(livelock{in: "writer called 8 times in a row with nothing to write"})
		}
	} else {
		w.emptyInRow = 0
	}
	return k, err
}

func runDecoder(s *Script, rec *Rec) {
	w := &schedWriter{}
	if v, ok := s.Cfg["wsched"]; ok && v != nil {
		for _, x := range v.([]any) {
			t := x.([]any)
			w.sched = append(w.sched, [2]int{int(num(t[0])), int(num(t[1]))})
		}
	}
	cfg := lz.DecoderConfig{
		WindowSize: int(num(s.Cfg["W"])),
		BufferSize: int(num(s.Cfg["B"])),
	}
	var d *lz.Decoder
	var ierr error
	if !rec.Call("init", func() { d, ierr = lz.NewDecoder(w, cfg) }) {
		return
	}
	if ierr != nil {
		return
	}
	// The decoder's configuration after defaults: WindowSize 0 means 8 MiB.
	c2 := cfg
	c2.SetDefaults()
	rec.Emit(Event{"op": "begin", "tid": s.Tid, "comp": "dec", "W": c2.WindowSize, "B": c2.BufferSize})
	defer rec.Emit(Event{"op": "end"})
	for _, op := range s.Ops {
		name := str(op["op"])
		retry := boolean(op["retry"])
		ok := true
		switch name {
		case "dec.wbyte":
			c := byte(num(op["c"]))
			for attempt := 0; attempt < 6; attempt++ {
				var err error
				w.beginCall(name)
				ok = rec.Call(name, func() { err = d.WriteByte(c) })
				if !ok {
					break
				}
				rec.Emit(Event{"op": name, "c": int(c), "err": decErr(err), "wcalls": w.wcalls})
				if !(retry && err == errHarnessWriter) {
					break
				}
			}
		case "dec.write":
			p := bytesOf(op["p"])
			for attempt := 0; attempt < 6; attempt++ {
				var n int
				var err error
				w.beginCall(name)
				ok = rec.Call(name, func() { n, err = d.Write(p) })
				if !ok {
					break
				}
				rec.Emit(Event{"op": name, "p": B(p), "n": n, "err": decErr(err), "wcalls": w.wcalls})
				if !(retry && err == errHarnessWriter) || n < 0 || n > len(p) {
					break
				}
				p = p[n:]
			}
		case "dec.wblock":
			seqs, lits := seqsOf(op["seqs"]), bytesOf(op["lits"])
			for attempt := 0; attempt < 6; attempt++ {
				seqs0 := append([]lz.Seq{}, seqs...)
				lits0 := append([]byte{}, lits...)
				blk := lz.Block{Sequences: seqs, Literals: lits}
				var n, k, l int
				var err error
				w.beginCall(name)
				ok = rec.Call(name, func() { n, k, l, err = d.WriteBlock(blk) })
				if !ok {
					break
				}
				untouched := seqsEqual(seqs, seqs0) && bytes.Equal(lits, lits0)
				rec.Emit(Event{"op": name, "seqs": seqsJSON(seqs0), "lits": B(lits0),
					"n": n, "k": k, "l": l, "err": decErr(err), "untouched": untouched, "wcalls": w.wcalls})
				if !(retry && err == errHarnessWriter) || k < 0 || k > len(seqs) || l < 0 || l > len(lits) {
					break
				}
				// the documented retry protocol: the unconsumed remainder
				seqs, lits = seqs[k:], lits[l:]
			}
		case "dec.flush":
			for attempt := 0; attempt < 6; attempt++ {
				var err error
				w.beginCall(name)
				ok = rec.Call(name, func() { err = d.Flush() })
				if !ok {
					break
				}
				rec.Emit(Event{"op": name, "err": decErr(err), "wcalls": w.wcalls})
				if !(retry && err == errHarnessWriter) {
					break
				}
			}
		case "dec.reset":
			w.beginCall(name)
			ok = rec.Call(name, func() { d.Reset(w) })
			if ok {
				rec.Emit(Event{"op": name})
			}
		default:
			panic("lzdrive: dec: unknown op " + name)
		}
		if !ok {
			return
		}
	}
}

// ---------------------------------------------------------------------
// Go-side generator for Decoder histories: sizes relative to
// BufferSize-WindowSize and BufferSize, B < 2W, writer fault schedules,
// the retry protocol.
// ---------------------------------------------------------------------

func init() {
	generators["dec"] = genDecoder
}

func genDecoder(seed int64, n int, tier string) []Script {
	r := rand.New(rand.NewSource(seed))
	var out []Script
	for i := 0; i < n; i++ {
		W := 1 + r.Intn(10)
		var B int
		switch r.Intn(4) {
		case 0:
			B = W + 1
		case 1:
			B = 2 * W
		case 2:
			B = W + 1 + r.Intn(W+1) // often B < 2W
		default:
			B = W + 1 + r.Intn(30)
		}
		if r.Intn(16) == 0 {
			// at and beyond the boundary of what the configuration check
			// accepts (WindowSize < BufferSize): if Init/NewDecoder accepts
			// such a geometry the object must still behave
			B = W - r.Intn(2)
		}
		faulty := r.Intn(2) == 0
		invalid := r.Intn(4) == 0
		alpha := 2 + r.Intn(3)
		var sched [][2]int
		if faulty {
			m := 2 + r.Intn(10)
			for j := 0; j < m; j++ {
				if r.Intn(3) == 0 {
					sched = append(sched, [2]int{r.Intn(B + 1), r.Intn(2)})
				} else {
					sched = append(sched, [2]int{-1, 0})
				}
			}
			switch r.Intn(6) {
			case 0: // one of the faults is a short write in the bufio style
				sched[r.Intn(len(sched))] = [2]int{r.Intn(3), 2}
			case 1: // the device dies at some point
				sched = append(sched[:r.Intn(len(sched)+1)], [2]int{0, 3})
			}
		}
		// sizes around the interesting boundaries
		sizes := []int{0, 1, 2, B - W - 1, B - W, B - W + 1, W, W + 1, B - 1, B, B + 1, 2*B + 1}
		size := func() int {
			k := sizes[r.Intn(len(sizes))]
			if k < 0 {
				k = 0
			}
			return k
		}
		nops := 4 + r.Intn(16)
		written := 0
		var ops []map[string]any
		cfgW, cfgB := W, B
		switch r.Intn(24) {
		case 0: // everything left to the defaults (8 MiB window, 16 MiB buffer)
			cfgW, cfgB = 0, 0
		case 1: // BufferSize left to its default (2 x WindowSize)
			cfgB = 0
			B = 2 * W
		}
		if r.Intn(6) == 0 {
			// one long valid block: many sequences, each small enough to fit,
			// together several times the free space, so that a single
			// WriteBlock needs two or more flush-and-retry rounds; sometimes a
			// malformed sequence at the end and long trailing literals
			free := B - W
			if free < 1 {
				free = 1
			}
			var seqs [][]int64
			nl := 0
			w2 := 0
			for q := 0; q < 8+r.Intn(20); q++ {
				lit := int64(r.Intn(minI(3, free) + 1))
				lim := w2 + int(lit)
				if lim > W {
					lim = W
				}
				var o, m int64
				if lim > 0 {
					o = int64(1 + r.Intn(lim))
					m = int64(r.Intn(free - int(lit) + 1))
				}
				seqs = append(seqs, []int64{lit, m, o, 0})
				nl += int(lit)
				w2 += int(lit) + int(m)
			}
			switch r.Intn(4) {
			case 0:
				seqs = append(seqs, []int64{0, 3, int64(W + 1 + r.Intn(3)), 0}) // offset beyond the window
			case 1:
				seqs = append(seqs, []int64{int64(nl + 50), 1, 1, 0}) // more literals than there are
			}
			trailing := pickInt(r, 0, 1, free, 3*free+1)
			ops = append(ops, map[string]any{"op": "dec.wblock", "seqs": seqs,
				"lits": randBytes(r, nl+trailing, alpha), "retry": true})
			written = w2 + trailing
		}
		for j := 0; j < nops; j++ {
			retry := r.Intn(3) > 0
			switch x := r.Intn(12); {
			case x < 1:
				ops = append(ops, map[string]any{"op": "dec.wbyte", "c": r.Intn(alpha), "retry": retry})
				written++
			case x < 4:
				k := size()
				ops = append(ops, map[string]any{"op": "dec.write", "p": randBytes(r, k, alpha), "retry": retry})
				written += k
			case x < 10:
				ns := r.Intn(4)
				var seqs [][]int64
				nl := 0
				w2 := written
				for q := 0; q < ns; q++ {
					lit := int64(r.Intn(3))
					if r.Intn(12) == 0 {
						lit = int64(size())
					}
					lim := w2 + int(lit)
					if lim > W {
						lim = W
					}
					var o int64
					if lim > 0 {
						o = int64(1 + r.Intn(lim))
					}
					m := int64(r.Intn(W + 3))
					if r.Intn(10) == 0 {
						m = int64(size())
					}
					if o == 0 {
						m = 0
					}
					if invalid && r.Intn(6) == 0 {
						o = int64(lim + 1 + r.Intn(2))
					}
					seqs = append(seqs, []int64{lit, m, o, 0})
					nl += int(lit)
					w2 += int(lit) + int(m)
				}
				trailing := r.Intn(3)
				if r.Intn(4) == 0 {
					trailing = size()
				}
				if invalid && r.Intn(8) == 0 && nl > 0 {
					nl--
					trailing = 0
				}
				ops = append(ops, map[string]any{"op": "dec.wblock", "seqs": seqs,
					"lits": randBytes(r, nl+trailing, alpha), "retry": retry})
				written = w2 + trailing
			case x < 11:
				ops = append(ops, map[string]any{"op": "dec.flush", "retry": retry})
			default:
				ops = append(ops, map[string]any{"op": "dec.reset"})
				written = 0
			}
		}
		ops = append(ops, map[string]any{"op": "dec.flush", "retry": true})
		tags := []string{"go"}
		if faulty {
			tags = append(tags, "faulty")
		}
		if invalid {
			tags = append(tags, "invalid")
		}
		out = append(out, Script{
			Tid:  "dec-go-" + itoa(seed) + "-" + itoa(int64(i)),
			Comp: "dec",
			Cfg:  map[string]any{"W": cfgW, "B": cfgB, "wsched": sched},
			Ops:  ops,
			Tags: tags,
		})
	}
	return out
}
