package main

func runDecoder(s *Script, rec *Rec) {}
