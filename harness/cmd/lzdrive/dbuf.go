package main

import (
	"bytes"
	"math/rand"

	"github.com/ulikunitz/lz"
)

// scriptWriter is an io.Writer with scripted behaviour. It conforms to the
// io.Writer contract: a short write always comes with an error.
type scriptWriter struct {
	accept int  // bytes to accept on the next call; <0: everything
	fail   bool // return an error even if everything was accepted
	// log of the last call
	offered  []byte
	accepted int
	werr     error
	sink     []byte
}

func (w *scriptWriter) Write(p []byte) (int, error) {
	w.offered = append([]byte{}, p...)
	k := len(p)
	if w.accept >= 0 && w.accept < k {
		k = w.accept
	}
	w.sink = append(w.sink, p[:k]...)
	w.accepted = k
	w.werr = nil
	if k < len(p) || w.fail {
		w.werr = errHarnessWriter
	}
	return k, w.werr
}

func dbufState(ev Event, b *lz.DecoderBuffer) Event {
	ev["data"] = B(b.Data)
	ev["r"] = b.R
	ev["off"] = b.Off
	ev["bsz"] = b.BufferSize
	return ev
}

// runDBuf executes a script against lz.DecoderBuffer.
func runDBuf(s *Script, rec *Rec) {
	var b lz.DecoderBuffer
	cfg := lz.DecoderConfig{
		WindowSize: int(num(s.Cfg["W"])),
		BufferSize: int(num(s.Cfg["B"])),
	}
	var ierr error
	if !rec.Call("init", func() { ierr = b.Init(cfg) }) {
		return
	}
	if ierr != nil {
		// Not an accepted configuration: nothing to record.
		return
	}
	// Constants come from the object, not from the request.
	rec.Emit(Event{"op": "begin", "tid": s.Tid, "comp": "dbuf",
		"W": b.WindowSize, "B": b.BufferSize})
	defer rec.Emit(Event{"op": "end"})
	for _, op := range s.Ops {
		name := str(op["op"])
		ok := true
		switch name {
		case "wbyte":
			c := byte(num(op["c"]))
			var err error
			ok = rec.Call(name, func() { err = b.WriteByte(c) })
			if ok {
				rec.Emit(dbufState(Event{"op": name, "c": int(c), "err": decErr(err)}, &b))
			}
		case "dwrite":
			p := bytesOf(op["p"])
			var n int
			var err error
			ok = rec.Call(name, func() { n, err = b.Write(p) })
			if ok {
				rec.Emit(dbufState(Event{"op": name, "p": B(p), "n": n, "err": decErr(err)}, &b))
			}
		case "wmatch":
			m, o := uint32(num(op["m"])), uint32(num(op["o"]))
			var n int
			var err error
			ok = rec.Call(name, func() { n, err = b.WriteMatch(m, o) })
			if ok {
				rec.Emit(dbufState(Event{"op": name, "m": sat(m), "o": sat(o), "n": n, "err": decErr(err)}, &b))
			}
		case "wblock":
			seqs, lits := seqsOf(op["seqs"]), bytesOf(op["lits"])
			seqs0 := append([]lz.Seq{}, seqs...)
			lits0 := append([]byte{}, lits...)
			blk := lz.Block{Sequences: seqs, Literals: lits}
			var n, k, l int
			var err error
			ok = rec.Call(name, func() { n, k, l, err = b.WriteBlock(blk) })
			if ok {
				untouched := seqsEqual(seqs, seqs0) && bytes.Equal(lits, lits0) &&
					len(blk.Sequences) == len(seqs0) && len(blk.Literals) == len(lits0)
				rec.Emit(dbufState(Event{"op": name, "seqs": seqsJSON(seqs0), "lits": B(lits0),
					"n": n, "k": k, "l": l, "err": decErr(err), "untouched": untouched}, &b))
			}
		case "read":
			max := int(num(op["max"]))
			p := make([]byte, max)
			var n int
			var err error
			ok = rec.Call(name, func() { n, err = b.Read(p) })
			if ok {
				if n < 0 || n > max {
					n = 0
				}
				rec.Emit(dbufState(Event{"op": name, "max": max, "out": B(p[:n]), "n": n, "err": decErr(err)}, &b))
			}
		case "writeto":
			w := &scriptWriter{accept: int(num(op["accept"])), fail: boolean(op["fail"])}
			var n int64
			var err error
			ok = rec.Call(name, func() { n, err = b.WriteTo(w) })
			if ok {
				rec.Emit(dbufState(Event{"op": name, "offered": B(w.offered), "accepted": w.accepted,
					"werr": decErr(w.werr), "n": n, "err": decErr(err)}, &b))
			}
		case "dreset":
			ok = rec.Call(name, func() { b.Reset() })
			if ok {
				rec.Emit(dbufState(Event{"op": name}, &b))
			}
		default:
			panic("lzdrive: dbuf: unknown op " + name)
		}
		if !ok {
			return
		}
	}
}

// ---------------------------------------------------------------------
// Go-side generator: histories the small TLC model cannot reach (larger
// buffers, long overlapping matches, attacker-chosen values).
// ---------------------------------------------------------------------

func init() {
	generators["dbuf"] = genDBuf
}

func randBytes(r *rand.Rand, n, k int) []int {
	out := make([]int, n)
	for i := range out {
		out[i] = r.Intn(k)
	}
	return out
}

var attackVals = []int64{0, 1, 2, 3, 1<<31 - 1, 1 << 31, 1<<32 - 1}

func genDBuf(seed int64, n int, tier string) []Script {
	r := rand.New(rand.NewSource(seed))
	var out []Script
	for i := 0; i < n; i++ {
		W := 1 + r.Intn(12)
		var B int
		switch r.Intn(4) {
		case 0:
			B = W + 1
		case 1:
			B = 2 * W
		case 2:
			B = W + 1 + r.Intn(8)
		default:
			B = W + 1 + r.Intn(40)
		}
		if r.Intn(16) == 0 {
			// at and beyond the boundary of what the configuration check
			// accepts (WindowSize < BufferSize): if Init/NewDecoder accepts
			// such a geometry the object must still behave
			B = W - r.Intn(2)
		}
		attacker := r.Intn(3) == 0
		alpha := 2 + r.Intn(3)
		nops := 5 + r.Intn(30)
		var ops []map[string]any
		// approximate count of bytes written, only to choose plausible
		// offsets (the oracle is TLC, not this counter)
		written := 0
		pick := func(limit int) int64 {
			if attacker && r.Intn(4) == 0 {
				switch r.Intn(3) {
				case 0:
					return attackVals[r.Intn(len(attackVals))]
				case 1:
					return int64(W + r.Intn(3) - 1)
				default:
					return int64(written + r.Intn(3) - 1)
				}
			}
			if limit <= 0 {
				return 0
			}
			return int64(1 + r.Intn(limit))
		}
		for j := 0; j < nops; j++ {
			switch x := r.Intn(20); {
			case x < 2:
				ops = append(ops, map[string]any{"op": "wbyte", "c": r.Intn(alpha)})
				written++
			case x < 6:
				k := r.Intn(B + 2)
				if r.Intn(3) > 0 {
					k = r.Intn(4)
				}
				ops = append(ops, map[string]any{"op": "dwrite", "p": randBytes(r, k, alpha)})
				written += k
			case x < 10:
				lim := written
				if lim > W {
					lim = W
				}
				o := pick(lim)
				m := int64(r.Intn(2 * W + 2))
				if attacker && r.Intn(5) == 0 {
					m = attackVals[r.Intn(len(attackVals))]
				}
				ops = append(ops, map[string]any{"op": "wmatch", "m": m, "o": o})
				if m < 1000 {
					written += int(m)
				}
			case x < 15:
				ns := r.Intn(4)
				var seqs [][]int64
				nl := 0
				w2 := written
				for q := 0; q < ns; q++ {
					lit := int64(r.Intn(3))
					lim := w2 + int(lit)
					if lim > W {
						lim = W
					}
					o := pick(lim)
					m := int64(r.Intn(W + 3))
					if attacker && r.Intn(8) == 0 {
						m = attackVals[r.Intn(len(attackVals))]
					}
					if attacker && r.Intn(8) == 0 {
						lit = attackVals[r.Intn(len(attackVals))]
					}
					seqs = append(seqs, []int64{lit, m, o, 0})
					if lit < 1000 {
						nl += int(lit)
					}
					if m < 1000 && lit < 1000 {
						w2 += int(lit) + int(m)
					}
				}
				trailing := r.Intn(4)
				if r.Intn(6) == 0 {
					trailing = r.Intn(B + 2)
				}
				if attacker && r.Intn(4) == 0 && nl > 0 {
					nl -= 1 // one literal byte too few for the sequences
					trailing = 0
				}
				ops = append(ops, map[string]any{"op": "wblock", "seqs": seqs, "lits": randBytes(r, nl+trailing, alpha)})
				written = w2 + trailing
			case x < 18:
				ops = append(ops, map[string]any{"op": "read", "max": r.Intn(B + 2)})
			case x < 19:
				acc := -1
				fail := false
				if r.Intn(2) == 0 {
					acc = r.Intn(B + 1)
					fail = r.Intn(3) == 0
				}
				ops = append(ops, map[string]any{"op": "writeto", "accept": acc, "fail": fail})
			default:
				ops = append(ops, map[string]any{"op": "dreset"})
				written = 0
			}
		}
		tags := []string{"go"}
		if attacker {
			tags = append(tags, "attacker")
		}
		out = append(out, Script{
			Tid:  "dbuf-go-" + itoa(seed) + "-" + itoa(int64(i)),
			Comp: "dbuf",
			Cfg:  map[string]any{"W": W, "B": B},
			Ops:  ops,
			Tags: tags,
		})
	}
	return out
}

func itoa(i int64) string {
	return fmtInt(i)
}
