package main

import (
	"math/rand"
)

// ---------------------------------------------------------------------
// Input classes
// ---------------------------------------------------------------------

func fib(n int, a, b byte) []byte {
	x, y := []byte{a}, []byte{a, b}
	for len(y) < n {
		x, y = y, append(append([]byte{}, y...), x...)
	}
	return y[:n]
}

func thueMorse(n int, a, b byte) []byte {
	out := make([]byte, n)
	for i := range out {
		c := 0
		for x := i; x > 0; x >>= 1 {
			c ^= x & 1
		}
		if c == 0 {
			out[i] = a
		} else {
			out[i] = b
		}
	}
	return out
}

func deBruijn(k, n int) []byte {
	// standard Lyndon-word construction over alphabet 0..k-1
	a := make([]int, k*n)
	var seq []byte
	var db func(t, p int)
	db = func(t, p int) {
		if t > n {
			if n%p == 0 {
				for _, x := range a[1 : p+1] {
					seq = append(seq, byte(x))
				}
			}
			return
		}
		a[t] = a[t-p]
		db(t+1, p)
		for j := a[t-p] + 1; j < k; j++ {
			a[t] = j
			db(t+1, t)
		}
	}
	db(1, 1)
	return seq
}

var runBytes = []byte{0x00, 0x01, 0xff, 'a', 0x80}

// genInput returns an input of roughly n bytes and the name of its class.
func genInput(r *rand.Rand, n int) ([]byte, string) {
	if n <= 0 {
		return []byte{}, "empty"
	}
	switch r.Intn(12) {
	case 0: // random over a small alphabet
		k := 2 + r.Intn(3)
		out := make([]byte, n)
		for i := range out {
			out[i] = byte(r.Intn(k))
		}
		return out, "kary"
	case 1: // incompressible
		out := make([]byte, n)
		r.Read(out)
		return out, "random256"
	case 2: // one run
		c := runBytes[r.Intn(len(runBytes))]
		out := make([]byte, n)
		for i := range out {
			out[i] = c
		}
		return out, "run"
	case 3: // several runs of different bytes, 0x00 heavy
		var out []byte
		for len(out) < n {
			c := runBytes[r.Intn(len(runBytes))]
			l := 1 + r.Intn(80)
			for j := 0; j < l && len(out) < n; j++ {
				out = append(out, c)
			}
		}
		return out, "runs"
	case 4: // periodic with one defect
		p := 1 + r.Intn(9)
		pat := make([]byte, p)
		for i := range pat {
			pat[i] = byte(r.Intn(4))
		}
		out := make([]byte, n)
		for i := range out {
			out[i] = pat[i%p]
		}
		out[r.Intn(n)] ^= 0x55
		return out, "periodic"
	case 5: // copy-paste text
		out := make([]byte, 0, n)
		for len(out) < n {
			if len(out) > 4 && r.Intn(2) == 0 {
				s := r.Intn(len(out))
				l := 2 + r.Intn(30)
				for j := 0; j < l && len(out) < n; j++ {
					out = append(out, out[s+j%(len(out)-s)])
				}
			} else {
				l := 1 + r.Intn(8)
				for j := 0; j < l && len(out) < n; j++ {
					out = append(out, byte('a'+r.Intn(6)))
				}
			}
		}
		return out, "copypaste"
	case 6:
		return fib(n, byte(r.Intn(2)), byte(2+r.Intn(2))), "fibonacci"
	case 7:
		return thueMorse(n, 0, byte(1+r.Intn(255))), "thuemorse"
	case 8:
		s := deBruijn(2+r.Intn(2), 3+r.Intn(3))
		out := make([]byte, n)
		for i := range out {
			out[i] = s[i%len(s)]
		}
		return out, "debruijn"
	case 9: // a^n b^m ...
		var out []byte
		c := byte(0)
		for len(out) < n {
			l := 1 + r.Intn(40)
			for j := 0; j < l && len(out) < n; j++ {
				out = append(out, c)
			}
			c ^= 1
		}
		return out, "tworuns"
	case 10: // nested prefixes: the longer the common prefix, the farther away its
		// previous occurrence (many match candidates of different length and
		// distance for one position: more than four OSAP edges)
		var out []byte
		for len(out) < n {
			L := 5 + r.Intn(6)
			w := make([]byte, L)
			for i := range w {
				w[i] = byte('a' + r.Intn(3))
			}
			for k := L; k >= 2 && len(out) < n; k-- {
				out = append(out, w[:k]...)
				out = append(out, byte('0'+r.Intn(10)))
			}
			out = append(out, w...)
			out = append(out, byte('A'+r.Intn(4)))
		}
		return out[:n], "nestedprefix"
	default: // zeros with sparse non-zero bytes
		out := make([]byte, n)
		for i := 0; i < n/9+1; i++ {
			out[r.Intn(n)] = byte(r.Intn(3))
		}
		return out, "zerosparse"
	}
}

// ---------------------------------------------------------------------
// Configurations: tiny geometries, every order relation between the sizes
// ---------------------------------------------------------------------

var parserKinds = []string{"HP", "BHP", "DHP", "BDHP", "BUP", "GSAP", "OSAP"}

func pickInt(r *rand.Rand, xs ...int) int { return xs[r.Intn(len(xs))] }

func genParserCfg(r *rand.Rand, kind string, maxB int) map[string]any {
	var B int
	switch r.Intn(4) {
	case 0:
		B = 1 + r.Intn(8)
	case 1:
		B = 9 + r.Intn(56)
	default:
		B = 65 + r.Intn(maxB-64)
	}
	S := pickInt(r, 0, 1, B/2, B-1, B/3, B/4)
	if S < 0 {
		S = 0
	}
	if S >= B { // ShrinkSize = BufferSize is exercised by the C16 generator
		S = B - 1
	}
	W := pickInt(r, 1, 2, 3, B/2, B-1, B, B+1, 2*B, 0, 7, 8, 9, 25, 1<<31-1, 1<<31, 1<<32-8)
	if W < 0 {
		W = 1
	}
	Blk := pickInt(r, 1, 2, 3, 7, 8, 9, 31, 32, 33, 64, 100, B, 2*B, 0, 40, 50, 1<<32-8)
	c := map[string]any{"kind": kind, "BufferSize": B, "ShrinkSize": S, "WindowSize": W, "BlockSize": Blk}
	hb := func(il int) int {
		m := 8 * il
		if m > 10 {
			m = 10
		}
		if r.Intn(5) == 0 {
			return 0 // default
		}
		return r.Intn(m + 1)
	}
	switch kind {
	case "HP", "BHP":
		il := pickInt(r, 2, 2, 3, 3, 3, 4, 4, 5, 6, 7, 8, 0)
		c["InputLen"] = il
		if il == 0 {
			il = 3
		}
		c["HashBits"] = hb(il)
	case "BUP":
		il := pickInt(r, 2, 2, 3, 3, 3, 4, 4, 5, 6, 7, 8, 0)
		c["InputLen"] = il
		if il == 0 {
			il = 3
		}
		c["HashBits"] = hb(il)
		c["BucketSize"] = pickInt(r, 1, 1, 2, 3, 4, 0)
	case "DHP", "BDHP":
		il1 := pickInt(r, 2, 2, 3, 3, 4, 5, 6, 7)
		il2 := il1 + 1 + r.Intn(8-il1)
		c["InputLen1"], c["InputLen2"] = il1, il2
		c["HashBits1"], c["HashBits2"] = hb(il1), hb(il2)
		if r.Intn(6) == 0 {
			c["InputLen1"], c["InputLen2"] = 0, 0 // defaults 3 / 6
		}
	case "GSAP":
		mm := pickInt(r, 2, 2, 3, 3, 4, 5, 0)
		c["MinMatchLen"] = mm
		if mm == 0 {
			mm = 3
		}
		if W != 0 && W < mm {
			c["WindowSize"] = mm
		}
		if W > 1<<31-1 {
			c["WindowSize"] = 1<<31 - 1
		}
	case "OSAP":
		mm := pickInt(r, 2, 2, 3, 3, 4, 0)
		c["MinMatchLen"] = mm
		if mm == 0 {
			mm = 3
		}
		c["MaxMatchLen"] = pickInt(r, mm, mm+1, 8, 16, 273, 0)
	}
	return c
}

// ---------------------------------------------------------------------
// Histories
// ---------------------------------------------------------------------

func init() {
	generators["parser"] = func(seed int64, n int, tier string) []Script {
		return genParser(seed, n, tier, parserKinds, "mixed")
	}
	generators["parser-gsap"] = func(seed int64, n int, tier string) []Script {
		return genParser(seed, n, tier, []string{"GSAP"}, "nonil")
	}
	generators["parser-osap"] = func(seed int64, n int, tier string) []Script {
		return genParser(seed, n, tier, []string{"OSAP"}, "flags0")
	}
	generators["parser-runs"] = genParserRuns
	// many nil blocks (with and without NoTrailingLiterals), blocks left
	// unparsed while more data arrives, blocks much smaller than the chunks
	generators["parser-nil"] = func(seed int64, n int, tier string) []Script {
		return genParser(seed, n, tier, parserKinds, "nil")
	}
	// GSAP/OSAP with NoTrailingLiterals on most calls, whole buffer fills
	// and small blocks: the parse position goes back after a block while the
	// search structures stay (several blocks per suffix array / edge set)
	generators["parser-sa-ntl"] = func(seed int64, n int, tier string) []Script {
		return genParser(seed, n, tier, []string{"GSAP", "OSAP"}, "ntl")
	}
}

func pumpOp(r *rand.Rand, data []byte, B int, style string) map[string]any {
	mode := "write"
	if r.Intn(2) == 0 {
		mode = "readfrom"
	}
	chunk := pickInt(r, 1, 2, 3, 7, B/2+1, B, B+3, len(data)+1, 13, 40)
	op := map[string]any{"op": "pump", "data": B2(data), "chunk": chunk, "mode": mode,
		"rmax": pickInt(r, 0, 0, 1, 2, 3, 5, 17), "seed": r.Intn(1 << 30),
		"pntl": pickInt(r, 0, 0, 30, 60, 100), "pnil": pickInt(r, 0, 0, 0, 10, 30),
		"pearly": pickInt(r, 0, 10, 50), "pprobe": pickInt(r, 0, 10, 30), "pshrink": pickInt(r, 0, 5, 30),
		"pstop": pickInt(r, 0, 0, 0, 20, 50), "reuse": r.Intn(2) == 0}
	switch style {
	case "nil":
		op["pnil"] = pickInt(r, 30, 50, 70)
		op["pstop"] = pickInt(r, 0, 30, 60)
		op["pearly"] = pickInt(r, 30, 100)
		op["chunk"] = pickInt(r, B/2+1, B, 40, 100)
	case "ntl":
		op["pnil"] = 0
		op["pntl"] = pickInt(r, 60, 100, 100)
		op["chunk"] = pickInt(r, B, B+3, len(data)+1)
		op["pearly"] = 0
	case "nonil":
		op["pnil"] = 0
	case "flags0":
		op["pnil"] = pickInt(r, 0, 0, 10)
		op["pntl"] = pickInt(r, 0, 0, 0, 30)
	}
	return op
}

// B2 converts bytes for a script (ints).
func B2(p []byte) []int { return B(p) }

func genParser(seed int64, n int, tier string, kinds []string, style string) []Script {
	r := rand.New(rand.NewSource(seed))
	maxLen := 400
	maxB := 200
	if tier == "thorough" {
		maxLen = 600
		maxB = 300
	}
	if style == "flags0" || style == "nonil" || style == "ntl" {
		// cubic oracles: keep blocks and buffers small
		maxLen, maxB = 220, 130
	}
	var out []Script
	for i := 0; i < n; i++ {
		kind := kinds[i%len(kinds)]
		cfg := genParserCfg(r, kind, maxB)
		if style == "nil" {
			cfg["BlockSize"] = pickInt(r, 3, 8, 16, 33, 64)
			if int(num(cfg["BufferSize"])) < 64 {
				cfg["BufferSize"] = 64 + r.Intn(140)
				cfg["ShrinkSize"] = pickInt(r, 0, 1, int(num(cfg["BufferSize"]))-1)
			}
		}
		if style == "ntl" {
			cfg["BlockSize"] = pickInt(r, 5, 8, 13, 16, 24, 33)
			if int(num(cfg["BufferSize"])) < 40 {
				cfg["BufferSize"] = 40 + r.Intn(90)
				cfg["ShrinkSize"] = 0
			}
			cfg["WindowSize"] = pickInt(r, 1024, int(num(cfg["BufferSize"])), 2*int(num(cfg["BufferSize"])))
		}
		if style == "flags0" || style == "nonil" {
			// at most 64 bytes per block for the cubic oracles
			if b := int(num(cfg["BlockSize"])); b == 0 || b > 64 {
				cfg["BlockSize"] = pickInt(r, 16, 32, 33, 48, 64)
			}
			if style == "nonil" && r.Intn(2) == 0 {
				// buffer no larger than the window: the literal clause applies
				cfg["WindowSize"] = int(num(cfg["BufferSize"])) + r.Intn(3)
				if int(num(cfg["WindowSize"])) < 5 {
					cfg["WindowSize"] = 5
				}
			} else if style == "nonil" {
				// a window well inside the buffer: candidates are found and
				// then refused by the window test, others must still be found
				bb := int(num(cfg["BufferSize"]))
				cfg["WindowSize"] = pickInt(r, 4, 8, 16, maxI(5, bb/4), maxI(5, bb/2))
				if int(num(cfg["MinMatchLen"])) > int(num(cfg["WindowSize"])) {
					cfg["MinMatchLen"] = 2
				}
			}
		}
		B := int(num(cfg["BufferSize"]))
		total := r.Intn(maxLen)
		if r.Intn(8) == 0 {
			total = r.Intn(12)
		}
		data, class := genInput(r, total)
		var ops []map[string]any
		tags := []string{"go", kind, class}
		// optional prior history + Reset
		if r.Intn(5) == 0 {
			pre, _ := genInput(r, r.Intn(120))
			ops = append(ops, pumpOp(r, pre, B, style))
			if r.Intn(2) == 0 {
				ops = append(ops, map[string]any{"op": "reset"})
			} else {
				k := r.Intn(B + 1)
				if k > len(data) {
					k = len(data)
				}
				ops = append(ops, map[string]any{"op": "reset", "data": B2(data[:k]), "cap": pickInt(r, 0, 3, 7, 8, 20, B+8, 2*B+64, B-k+r.Intn(7), B-k+r.Intn(7))})
				data = data[k:]
			}
			tags = append(tags, "reset")
		}
		// split the input into one to three pumps with different styles
		for len(data) > 0 {
			k := len(data)
			if r.Intn(3) == 0 {
				k = 1 + r.Intn(len(data))
			}
			ops = append(ops, pumpOp(r, data[:k], B, style))
			data = data[k:]
		}
		// trailing calls on an empty buffer
		ops = append(ops, map[string]any{"op": "parse", "flags": r.Intn(2)})
		if style != "nonil" && style != "ntl" {
			ops = append(ops, map[string]any{"op": "parsenil"})
		}
		ops = append(ops, map[string]any{"op": "byteat", "rel": "end", "d": 0},
			map[string]any{"op": "byteat", "rel": "off", "d": -1},
			map[string]any{"op": "readat", "rel": "end", "d": -1, "lenp": 3},
			map[string]any{"op": "readat", "rel": "end", "d": 0, "lenp": 1})
		out = append(out, Script{
			Tid:  "parser-" + style + "-" + itoa(seed) + "-" + itoa(int64(i)),
			Comp: "parser",
			Cfg:  cfg,
			Ops:  ops,
			Tags: tags,
		})
	}
	return out
}

// genParserRuns: the run clause of C19 - every byte class, run lengths
// crossing block and buffer boundaries, window 1 (hash parsers) / 2 (GSAP).
func genParserRuns(seed int64, n int, tier string) []Script {
	r := rand.New(rand.NewSource(seed))
	var out []Script
	for i := 0; i < n; i++ {
		kind := parserKinds[i%len(parserKinds)]
		cfg := genParserCfg(r, kind, 200)
		cfg["BlockSize"] = pickInt(r, 32, 33, 40, 64, 100)
		B := pickInt(r, 40, 64, 100, 150, 200)
		cfg["BufferSize"] = B
		cfg["ShrinkSize"] = pickInt(r, 0, 1, B/2, B-1)
		switch kind {
		case "GSAP":
			cfg["WindowSize"] = pickInt(r, int(maxI(2, int(num(cfg["MinMatchLen"])))), 3, B, 2*B, 0)
			if int(num(cfg["WindowSize"])) != 0 && int(num(cfg["WindowSize"])) < int(maxI(3, int(num(cfg["MinMatchLen"])))) {
				cfg["WindowSize"] = int(maxI(3, int(num(cfg["MinMatchLen"]))))
			}
		case "OSAP":
			cfg["WindowSize"] = pickInt(r, 1, 2, B, 2*B, 0)
		default:
			cfg["WindowSize"] = pickInt(r, 1, 1, 2, B, 2*B, 0)
		}
		c := runBytes[r.Intn(len(runBytes))]
		if r.Intn(3) == 0 {
			c = byte(r.Intn(256))
		}
		var data []byte
		if r.Intn(2) == 0 {
			pre, _ := genInput(r, r.Intn(20))
			data = append(data, pre...)
		}
		if (kind == "GSAP" || kind == "OSAP") && r.Intn(3) == 0 {
			// an equal run further back than the window, separated by
			// other data: the longest match in the buffer is out of reach
			w := int(num(cfg["WindowSize"]))
			if w == 0 || w > 60 {
				w = 3 + r.Intn(40)
				cfg["WindowSize"] = w
			}
			for j := 0; j < 40+r.Intn(40); j++ {
				data = append(data, c)
			}
			for j := 0; j < w+1+r.Intn(30); j++ {
				data = append(data, byte('A'+j%50))
			}
		}
		l := 32 + r.Intn(400)
		for j := 0; j < l; j++ {
			data = append(data, c)
		}
		if r.Intn(2) == 0 {
			post, _ := genInput(r, r.Intn(20))
			data = append(data, post...)
		}
		op := pumpOp(r, data, B, "mixed")
		op["pntl"] = pickInt(r, 0, 0, 0, 50, 100)
		op["pnil"] = 0
		ops := []map[string]any{op}
		if r.Intn(3) == 0 || (kind == "BUP" && r.Intn(2) == 0) {
			// a used parser: warm up with a short run of the same byte, then
			// Reset (nil, or with the first part of the run)
			warm := make([]byte, 3+r.Intn(60))
			for j := range warm {
				warm[j] = c
			}
			wop := pumpOp(r, warm, B, "mixed")
			wop["pnil"], wop["pprobe"] = 0, 0
			reset := map[string]any{"op": "reset"}
			if r.Intn(2) == 0 && len(data) > 0 {
				k := 1 + r.Intn(minI(len(data), B))
				reset = map[string]any{"op": "reset", "data": B2(data[:k]), "cap": pickInt(r, 0, 7, 20)}
				op["data"] = B2(data[k:])
			}
			ops = []map[string]any{wop, reset, op}
		}
		out = append(out, Script{
			Tid:  "parser-runs-" + itoa(seed) + "-" + itoa(int64(i)),
			Comp: "parser",
			Cfg:  cfg,
			Ops:  ops,
			Tags: []string{"go", kind, "runclause"},
		})
	}
	return out
}

func maxI(a, b int) int {
	if a > b {
		return a
	}
	return b
}

// genParserCollide targets the maximality clauses of C19 for the hash
// parsers: few hash bits (every table slot is overwritten again and again,
// so candidates are found through a colliding or a fallback entry), long
// repeated substrings (9..40 bytes, beyond one 8-byte compare) separated by
// short fresh material, windows that cover the buffer.
func genParserCollide(seed int64, n int, tier string) []Script {
	r := rand.New(rand.NewSource(seed))
	kinds := []string{"HP", "BHP", "DHP", "BDHP", "BUP"}
	var out []Script
	for i := 0; i < n; i++ {
		kind := kinds[i%len(kinds)]
		B := pickInt(r, 64, 100, 150, 200, 256)
		cfg := map[string]any{"kind": kind, "BufferSize": B, "ShrinkSize": pickInt(r, 0, 1, B/2, B-1),
			"WindowSize": pickInt(r, B, 2*B, 0, B/2, 1<<31, 1<<32-8, 4), "BlockSize": pickInt(r, 16, 33, 64, 100, B, 2*B, 0)}
		bits := func() int { return r.Intn(4) }
		switch kind {
		case "HP", "BHP":
			cfg["InputLen"] = pickInt(r, 2, 3, 4, 5, 8)
			cfg["HashBits"] = bits()
		case "BUP":
			cfg["InputLen"] = pickInt(r, 2, 3, 4, 5, 8)
			cfg["HashBits"] = bits()
			cfg["BucketSize"] = pickInt(r, 1, 2, 3)
		default:
			il1 := pickInt(r, 2, 3, 3, 4)
			cfg["InputLen1"], cfg["InputLen2"] = il1, il1+1+r.Intn(8-il1)
			cfg["HashBits1"], cfg["HashBits2"] = pickInt(r, 2, 3, 4, 6, 8), bits()
		}
		alpha := 2 + r.Intn(5)
		total := 60 + r.Intn(340)
		data := make([]byte, 0, total)
		for len(data) < total {
			if len(data) > 12 && r.Intn(3) != 0 {
				s := r.Intn(len(data) - 9)
				l := 9 + r.Intn(32)
				for j := 0; j < l && len(data) < total && s+j < len(data); j++ {
					data = append(data, data[s+j])
				}
			} else {
				l := 1 + r.Intn(6)
				for j := 0; j < l && len(data) < total; j++ {
					data = append(data, byte(r.Intn(alpha)))
				}
			}
		}
		op := pumpOp(r, data, B, "mixed")
		op["pnil"] = 0
		op["pntl"] = pickInt(r, 0, 0, 30, 100)
		out = append(out, Script{
			Tid:  "parser-collide-" + itoa(seed) + "-" + itoa(int64(i)),
			Comp: "parser", Cfg: cfg, Ops: []map[string]any{op},
			Tags: []string{"go", kind, "collide"},
		})
	}
	return out
}

// genParserNTLFuture: NoTrailingLiterals re-offers the trailing literals of a
// block; the hash parsers have already entered those positions into their
// tables, so the next Parse meets entries AHEAD of its position. Each block
// starts with a short run (a match, so that the rewind happens) followed by
// periodic text whose period exceeds the window (no match possible, long
// agreement between a position and its successors one period ahead).
func genParserNTLFuture(seed int64, n int, tier string) []Script {
	r := rand.New(rand.NewSource(seed))
	kinds := []string{"HP", "BHP", "DHP", "BDHP", "BUP"}
	var out []Script
	for i := 0; i < n; i++ {
		kind := kinds[i%len(kinds)]
		P := 5 + r.Intn(8)
		W := pickInt(r, 1, 2, 3, 4, P-1, 1<<32-8, 1<<32-8, 1<<32-8)
		blk := 6 + 2*P + 10 + r.Intn(12)
		B := pickInt(r, 3*blk, 4*blk+5, 200)
		cfg := map[string]any{"kind": kind, "BufferSize": B, "ShrinkSize": pickInt(r, 0, B/2), "WindowSize": W, "BlockSize": blk}
		switch kind {
		case "HP", "BHP":
			cfg["InputLen"], cfg["HashBits"] = pickInt(r, 2, 3, 4), pickInt(r, 2, 4, 8, 12)
		case "BUP":
			cfg["InputLen"], cfg["HashBits"], cfg["BucketSize"] = pickInt(r, 2, 3, 4), pickInt(r, 2, 4, 8), pickInt(r, 1, 2, 4)
		default:
			il1 := pickInt(r, 2, 3)
			cfg["InputLen1"], cfg["InputLen2"] = il1, il1+1+r.Intn(3)
			cfg["HashBits1"], cfg["HashBits2"] = pickInt(r, 2, 4, 8), pickInt(r, 2, 4, 8)
		}
		pat := make([]byte, P)
		for j := range pat {
			pat[j] = byte('a' + j)
		}
		var data []byte
		for len(data) < 3*blk+10 {
			c := byte('0' + r.Intn(3))
			for j := 0; j < 6; j++ {
				data = append(data, c)
			}
			for j := 0; j < blk-6; j++ {
				data = append(data, pat[j%P])
			}
		}
		op := pumpOp(r, data, B, "mixed")
		op["chunk"], op["mode"], op["pntl"], op["pnil"], op["pearly"], op["pstop"] = len(data)+1, "write", 100, 0, 0, 0
		out = append(out, Script{Tid: "parser-ntlfuture-" + itoa(seed) + "-" + itoa(int64(i)), Comp: "parser", Cfg: cfg,
			Ops: []map[string]any{op}, Tags: []string{"go", kind, "ntlfuture"}})
	}
	return out
}

// genParserOSAPLong: OSAP on long blocks (600..1400 bytes) with repeats longer
// than 273 bytes and MaxMatchLen above, at and below that; judged by the
// greedy upper bound (C11.not_above_greedy), the cubic optimum being out of
// reach there.
func genParserOSAPLong(seed int64, n int, tier string) []Script {
	r := rand.New(rand.NewSource(seed))
	var out []Script
	for i := 0; i < n; i++ {
		chunk := 280 + r.Intn(420)
		base := make([]byte, chunk)
		for j := range base {
			base[j] = byte(r.Intn(256))
		}
		data := append(append([]byte{}, base...), base...)
		if r.Intn(2) == 0 {
			data[chunk+r.Intn(chunk)] ^= 0x40 // one defect in the copy
		}
		data = append(data, byte(r.Intn(256)))
		B := len(data) + r.Intn(50)
		cfg := map[string]any{"kind": "OSAP", "BufferSize": B, "ShrinkSize": B / 2, "WindowSize": pickInt(r, B, 2*B, 0),
			"BlockSize": pickInt(r, 0, B, 4096), "MinMatchLen": pickInt(r, 2, 3, 0), "MaxMatchLen": pickInt(r, 0, 273, 274, 1000, 4096, 100)}
		out = append(out, Script{Tid: "parser-osaplong-" + itoa(seed) + "-" + itoa(int64(i)), Comp: "parser", Cfg: cfg,
			Ops: []map[string]any{{"op": "write", "p": B2(data)}, {"op": "parse", "flags": 0, "witness": true},
				{"op": "parse", "flags": 0, "witness": true}},
			Tags: []string{"go", "OSAP", "longblock"}})
	}
	return out
}

// genParserGSAPBig: GSAP on buffers of several KiB (binary texts with long
// repeats: the suffix sort takes its rank-sort fall-backs), judged by
// counter-witnesses (C12.no_longer_match) instead of the cubic oracle.
func genParserGSAPBig(seed int64, n int, tier string) []Script {
	r := rand.New(rand.NewSource(seed))
	var out []Script
	for i := 0; i < n; i++ {
		total := pickInt(r, 3000, 5000, 8000, 12000)
		class := i % 3
		if class == 0 {
			// the rank sort falls back to its heap sort on about every
			// second random binary text of this size
			total = pickInt(r, 16000, 24000, 32000)
		}
		x := uint64(r.Int63()) | 1
		data := make([]byte, total)
		for j := range data {
			x ^= x << 13
			x ^= x >> 7
			x ^= x << 17
			data[j] = byte('a' + x>>33&1)
		}
		switch class {
		case 1: // long repeats copied over the random text
			for k := 0; k < 6; k++ {
				src, l := r.Intn(total/2), 50+r.Intn(400)
				dst := total/2 + r.Intn(total/2-l)
				copy(data[dst:dst+l], data[src:src+l])
			}
		case 2: // Fibonacci word with sparse noise
			a, b := []byte("a"), []byte("ab")
			for len(b) < total {
				a, b = b, append(append([]byte{}, b...), a...)
			}
			copy(data, b[:total])
			for k := 0; k < total/500; k++ {
				data[r.Intn(total)] ^= 3
			}
		}
		B := total + r.Intn(100)
		cfg := map[string]any{"kind": "GSAP", "BufferSize": B, "ShrinkSize": B / 2, "WindowSize": pickInt(r, B, 2*B, 0),
			"BlockSize": pickInt(r, 2048, 4096, 8192, 0), "MinMatchLen": pickInt(r, 2, 3, 4)}
		ops := []map[string]any{{"op": "write", "p": B2(data)}}
		for k := 0; k < total/2048+2; k++ {
			ops = append(ops, map[string]any{"op": "parse", "flags": 0, "cw": true})
		}
		out = append(out, Script{Tid: "parser-gsapbig-" + itoa(seed) + "-" + itoa(int64(i)), Comp: "parser", Cfg: cfg,
			Ops: ops, Tags: []string{"go", "GSAP", "bigbuffer", "class" + itoa(int64(class))}})
	}
	return out
}

// genParserAlias: a block that is reused across Parse calls must not alias
// the parser's buffer. First a literal-only block (data without any repeated
// gram), then - into the same Block - a block with new literals L and a
// match, then data that continues L with bytes of the first write: if the
// second block's literals were written into the buffer through an aliasing
// slice, the longest match for the third write lies in the overwritten
// region and the emitted block does not expand to the input any more.
func genParserAlias(seed int64, n int, tier string) []Script {
	r := rand.New(rand.NewSource(seed))
	var out []Script
	for i := 0; i < n; i++ {
		kind := parserKinds[i%len(parserKinds)]
		la := 16 + r.Intn(24)
		A := make([]byte, la)
		for j := range A {
			A[j] = byte(40 + j) // all bytes distinct: no repeated gram
		}
		ll := 3 + r.Intn(5)
		L := make([]byte, ll)
		for j := range L {
			L[j] = byte(200 + j)
		}
		k1 := 2 + r.Intn(4)
		m1 := 6 + r.Intn(6)
		d2 := append(append([]byte{}, L...), A[k1:k1+m1]...)
		d3 := append(append([]byte{}, L...), A[ll:minI(la, ll+8+r.Intn(6))]...)
		d3 = append(d3, byte(250))
		B := la + len(d2) + len(d3) + 8 + r.Intn(40)
		cfg := map[string]any{"kind": kind, "BufferSize": B, "ShrinkSize": pickInt(r, 0, B/2), "WindowSize": pickInt(r, B, 2*B, 0),
			"BlockSize": pickInt(r, B, 64, 0)}
		switch kind {
		case "HP", "BHP":
			cfg["InputLen"], cfg["HashBits"] = pickInt(r, 2, 3, 4), pickInt(r, 8, 12)
		case "BUP":
			cfg["InputLen"], cfg["HashBits"], cfg["BucketSize"] = pickInt(r, 2, 3, 4), pickInt(r, 8, 10), pickInt(r, 2, 4)
		case "DHP", "BDHP":
			cfg["InputLen1"], cfg["InputLen2"] = 2, 3+r.Intn(3)
			cfg["HashBits1"], cfg["HashBits2"] = pickInt(r, 8, 12), pickInt(r, 8, 12)
		default:
			cfg["MinMatchLen"] = pickInt(r, 2, 3, 4)
		}
		ops := []map[string]any{
			{"op": "write", "p": B2(A)}, {"op": "parse", "flags": 0, "reuse": true},
			{"op": "write", "p": B2(d2)}, {"op": "parse", "flags": 0, "reuse": true},
			{"op": "write", "p": B2(d3)}, {"op": "parse", "flags": 0, "reuse": true},
			{"op": "parse", "flags": 0, "reuse": true},
		}
		out = append(out, Script{Tid: "parser-alias-" + itoa(seed) + "-" + itoa(int64(i)), Comp: "parser", Cfg: cfg,
			Ops: ops, Tags: []string{"go", kind, "alias"}})
	}
	return out
}

// slotOf replicates the slot function of the hash parsers (hash.go:
// hashValue of the masked gram) so that the generator can construct grams
// that share a slot. If the code's function ever differs the constructions
// merely lose their point; nothing is judged with it.
func slotOf(g []byte, hashBits int) uint32 {
	var x uint64
	for i, b := range g {
		x |= uint64(b) << (8 * uint(i))
	}
	return uint32((x * 9920624304325388887) >> (64 - uint(hashBits)))
}

// genParserNTLCollide: after Parse(blk, NoTrailingLiterals) the dictionary
// holds entries for positions AHEAD of the parse position (the re-offered
// trailing literals). The construction makes the slot of a gram A point to
// its LATER occurrence when the earlier one is parsed again: A, filler, a
// gram B in the same slot (evicts A, so that the second A is not matched in
// the first pass), filler, A, filler. A parser that accepts the entry emits
// a match with a source in the future (non-positive distance). Windows from
// 1 to the maximum 2^32-8.
func genParserNTLCollide(seed int64, n int, tier string) []Script {
	r := rand.New(rand.NewSource(seed))
	kinds := []string{"HP", "BHP", "BUP"}
	var out []Script
	for i := 0; i < n; i++ {
		kind := kinds[i%len(kinds)]
		il := pickInt(r, 2, 3, 4)
		hb := pickInt(r, 6, 8, 10, 12)
		A := make([]byte, il)
		for j := range A {
			A[j] = byte('a' + r.Intn(20))
		}
		var Bg []byte
		for tries := 0; tries < 200000 && Bg == nil; tries++ {
			g := make([]byte, il)
			for j := range g {
				g[j] = byte(0x80 + r.Intn(0x70))
			}
			if slotOf(g, hb) == slotOf(A, hb) {
				Bg = g
			}
		}
		if Bg == nil {
			Bg = []byte{0x81, 0x82, 0x83, 0x84}[:il]
		}
		filler := func(k int, base byte) []byte {
			f := make([]byte, k)
			for j := range f {
				f[j] = base + byte(j)
			}
			return f
		}
		var data []byte
		data = append(data, "QRSTQRST"...)
		p1 := len(data)
		data = append(data, A...)
		data = append(data, filler(6+r.Intn(8), '0')...)
		data = append(data, Bg...)
		data = append(data, filler(6+r.Intn(8), 'A')...)
		data = append(data, A...)
		data = append(data, filler(4+r.Intn(10), 'K')...)
		_ = p1
		B := len(data) + r.Intn(60)
		cfg := map[string]any{"kind": kind, "BufferSize": B, "ShrinkSize": 0, "BlockSize": pickInt(r, B, 0),
			"WindowSize": pickInt(r, 1<<32-8, 1<<32-8, 1<<31, 1<<31-1, B, 8), "InputLen": il, "HashBits": hb}
		if kind == "BUP" {
			cfg["BucketSize"] = pickInt(r, 1, 2)
		}
		ops := []map[string]any{{"op": "write", "p": B2(data)}, {"op": "parse", "flags": 1}, {"op": "parse", "flags": 0},
			{"op": "parse", "flags": 0}}
		out = append(out, Script{Tid: "parser-ntlcollide-" + itoa(seed) + "-" + itoa(int64(i)), Comp: "parser", Cfg: cfg,
			Ops: ops, Tags: []string{"go", kind, "ntlfuture"}})
	}
	return out
}

// genParserNilCached: Parse(nil) between Parse calls that work on what an
// earlier call prepared (GSAP: the suffix array of the whole buffer fill,
// OSAP: the cached edges; hash parsers: the dictionary). Variant 1: one Write
// of several blocks, Parse, Parse(nil), Parse, Parse - no Write in between.
// Variant 2: Write A (k blocks and a rest), Parse k-1 times, Write B,
// Parse, then Parse(nil) over the block that straddles the end of A.
func genParserNilCached(seed int64, n int, tier string) []Script {
	r := rand.New(rand.NewSource(seed))
	var out []Script
	for i := 0; i < n; i++ {
		kind := parserKinds[i%len(parserKinds)]
		blk := pickInt(r, 8, 16, 32)
		k := 2 + r.Intn(3)
		rest := 1 + r.Intn(blk-1)
		la := k*blk + rest
		A, _ := genInput(r, la)
		for len(A) < la {
			A = append(A, byte('a'+r.Intn(3)))
		}
		Bd := relatedInput(r, A, blk+r.Intn(2*blk))
		for len(Bd) < blk {
			Bd = append(Bd, byte('a'+r.Intn(3)))
		}
		B := la + len(Bd) + r.Intn(40)
		cfg := map[string]any{"kind": kind, "BufferSize": B, "ShrinkSize": pickInt(r, 0, B/2), "WindowSize": pickInt(r, B, 2*B, 0), "BlockSize": blk}
		switch kind {
		case "HP", "BHP":
			cfg["InputLen"], cfg["HashBits"] = pickInt(r, 2, 3), pickInt(r, 4, 8)
		case "BUP":
			cfg["InputLen"], cfg["HashBits"], cfg["BucketSize"] = pickInt(r, 2, 3), pickInt(r, 4, 8), pickInt(r, 2, 4)
		case "DHP", "BDHP":
			cfg["InputLen1"], cfg["InputLen2"] = 2, 3+r.Intn(2)
			cfg["HashBits1"], cfg["HashBits2"] = pickInt(r, 4, 8), pickInt(r, 4, 8)
		default:
			cfg["MinMatchLen"] = pickInt(r, 2, 3)
		}
		parse := func(fl int) map[string]any { return map[string]any{"op": "parse", "flags": fl, "reuse": true} }
		nilp := func() map[string]any { return map[string]any{"op": "parsenil", "flags": pickInt(r, 0, 0, 1)} }
		var ops []map[string]any
		if i%2 == 0 {
			ops = append(ops, map[string]any{"op": "write", "p": B2(A)}, parse(0), nilp())
			for j := 0; j < k+1; j++ {
				ops = append(ops, parse(pickInt(r, 0, 0, 1)))
			}
		} else {
			ops = append(ops, map[string]any{"op": "write", "p": B2(A)})
			for j := 0; j < k; j++ {
				ops = append(ops, parse(0))
			}
			ops = append(ops, map[string]any{"op": "write", "p": B2(Bd)}, nilp())
			for j := 0; j < 4; j++ {
				ops = append(ops, parse(0))
			}
		}
		out = append(out, Script{Tid: "parser-nilcached-" + itoa(seed) + "-" + itoa(int64(i)), Comp: "parser", Cfg: cfg,
			Ops: ops, Tags: []string{"go", kind, "nilcached"}})
	}
	return out
}

func init() {
	generators["parser-nil-cached"] = genParserNilCached
	generators["parser-ntlcollide"] = genParserNTLCollide
	generators["parser-alias"] = genParserAlias
	generators["parser-gsap-big"] = genParserGSAPBig
	generators["parser-osap-long"] = genParserOSAPLong
	generators["parser-collide"] = genParserCollide
	generators["parser-ntlfuture"] = genParserNTLFuture
}

// genParserCap: the capacity boundary of the internal buffer. ParserBuffer
// grows its slice to 2t+7 bytes (at least 1024, at most BufferSize+7), and
// Reset(data) either adopts the caller's slice (if it has the 7-byte margin
// the 8-byte loads of the hash parsers need) or copies into the internal
// one. The scripts put len(data) right at the internal capacity minus the
// margin, with caller capacities of 0..8 spare bytes, after a first use that
// left the internal slice partially grown.
func genParserCap(seed int64, n int, tier string) []Script {
	r := rand.New(rand.NewSource(seed))
	var out []Script
	for i := 0; i < n; i++ {
		kind := parserKinds[i%len(parserKinds)]
		cfg := genParserCfg(r, kind, 200)
		B := pickInt(r, 1100, 1500, 2100, 1018+r.Intn(6), 1017+r.Intn(8))
		cfg["BufferSize"], cfg["ShrinkSize"] = B, pickInt(r, 0, 1, B/2)
		cfg["WindowSize"] = pickInt(r, B, 64, 2*B, 0)
		cfg["BlockSize"] = pickInt(r, 256, 512, 1024, 0)
		if kind == "GSAP" || kind == "OSAP" {
			cfg["WindowSize"] = pickInt(r, B, 2*B)
		}
		w := pickInt(r, 1, 100, 508, 509, 515, 600)
		icap := 1024
		if 2*w+7 > icap {
			icap = 2*w + 7
		}
		if icap > B+7 {
			icap = B + 7
		}
		first, _ := genInput(r, w)
		l := icap - 7 + pickInt(r, -1, 0, 1, 2, 3, 4, 6, 7)
		if l > B {
			l = B
		}
		// low-entropy data keeps the blocks (and the recorded events) small
		pat := make([]byte, 1+r.Intn(12))
		for j := range pat {
			pat[j] = byte(r.Intn(3))
		}
		data := make([]byte, l)
		for j := range data {
			data[j] = pat[j%len(pat)]
			if r.Intn(40) == 0 {
				data[j] = byte(r.Intn(256))
			}
		}
		ops := []map[string]any{
			{"op": "write", "p": B2(first)},
			{"op": "parse", "flags": 0},
			// spare capacity of the caller's slice: around the 7-byte margin, and
			// far beyond BufferSize+7 (the array is adopted, BufferSize must
			// still bound every later Write and ReadFrom)
			{"op": "reset", "data": B2(data), "cap": pickInt(r, 0, 0, 1, 3, 6, 7, 8, B+8, 2*B+64, 4*B)},
		}
		for k := 0; k < 12; k++ {
			ops = append(ops, map[string]any{"op": "parse", "flags": r.Intn(4) / 3})
		}
		ops = append(ops, map[string]any{"op": "write", "p": B2(first)}, map[string]any{"op": "parse", "flags": 0},
			map[string]any{"op": "byteat", "rel": "end", "d": -1})
		if r.Intn(2) == 0 {
			// fill the rest through ReadFrom (the read window must end at BufferSize)
			rest := make([]byte, B)
			for j := range rest {
				rest[j] = pat[j%len(pat)]
			}
			// a Write straight after the ReadFrom that filled the buffer: it
			// has to be refused (ErrFullBuffer), whatever the array's capacity
			ops = append(ops, map[string]any{"op": "readfrom", "src": B2(rest), "calls": []any{}},
				map[string]any{"op": "write", "p": B2(first)},
				map[string]any{"op": "parse", "flags": 0}, map[string]any{"op": "shrink"},
				map[string]any{"op": "readfrom", "src": B2(rest[:B/2]), "calls": []any{[]any{7, ""}, []any{1000, ""}}})
			for k := 0; k < 8; k++ {
				ops = append(ops, map[string]any{"op": "parse", "flags": 0})
			}
		}
		out = append(out, Script{Tid: "parser-cap-" + itoa(seed) + "-" + itoa(int64(i)), Comp: "parser", Cfg: cfg,
			Ops: ops, Tags: []string{"go", kind, "capboundary"}})
	}
	return out
}

func init() { generators["parser-cap"] = genParserCap }
