package main

import (
	"math/rand"

	"github.com/ulikunitz/lz"
)

// Component "e2e": the composition parser || decoder. A real parser (any of
// the seven, any accepted configuration) produces blocks; every block goes
// straight into a real Decoder with the same WindowSize (skipped blocks as
// plain bytes), through a destination writer that may fail. The trace
// interleaves the parser events (ParserSM envelope) with the decoder events
// (DecoderEnv envelope); E2E_Trace validates both and requires that a
// fault-free Flush has delivered exactly the parsed input.

func runE2E(s *Script, rec *Rec) {
	p, kind := makeParser(s, rec)
	if p == nil {
		return
	}
	bc := p.BufferConfig()
	w := &schedWriter{}
	if v, ok := s.Cfg["wsched"]; ok && v != nil {
		for _, x := range v.([]any) {
			t := x.([]any)
			w.sched = append(w.sched, [2]int{int(num(t[0])), int(num(t[1]))})
		}
	}
	// decoder geometry relative to the parser's window
	W := bc.WindowSize
	DB := 0
	switch str(s.Cfg["dbuf"]) {
	case "w+1":
		DB = W + 1
	case "w+3":
		DB = W + 3
	case "2w":
		DB = 2 * W
	case "4w":
		DB = 4 * W
	case "blk":
		DB = W + bc.BlockSize
	}
	if DB != 0 && DB <= W {
		DB = W + 1
	}
	dcfg := lz.DecoderConfig{WindowSize: W, BufferSize: DB}
	var d *lz.Decoder
	var ierr error
	if !rec.Call("init", func() { d, ierr = lz.NewDecoder(w, dcfg) }) {
		return
	}
	if ierr != nil {
		return
	}
	c2 := dcfg
	c2.SetDefaults()
	rec.Emit(Event{"op": "begin", "tid": s.Tid, "comp": "e2e", "c": specCfg(kind, p),
		"W": satInt(c2.WindowSize), "B": satInt(c2.BufferSize)})
	defer rec.Emit(Event{"op": "end"})
	pd := &pdrv{p: p, rec: rec}

	// decoder calls with the retry protocol
	wblock := func(blk lz.Block) bool {
		seqs, lits := blk.Sequences, blk.Literals
		for attempt := 0; attempt < 8; attempt++ {
			cp := lz.Block{Sequences: append([]lz.Seq{}, seqs...), Literals: append([]byte{}, lits...)}
			var n, k, l int
			var err error
			w.beginCall("dec.wblock")
			if !rec.Call("dec.wblock", func() { n, k, l, err = d.WriteBlock(cp) }) {
				return false
			}
			untouched := seqsEqual(cp.Sequences, seqs) && string(cp.Literals) == string(lits)
			rec.Emit(Event{"op": "dec.wblock", "seqs": seqsJSON(seqs), "lits": B(lits), "n": n, "k": k, "l": l,
				"err": decErr(err), "untouched": untouched, "wcalls": w.wcalls})
			if err == nil {
				return true
			}
			if err != errHarnessWriter || k < 0 || k > len(seqs) || l < 0 || l > len(lits) {
				// the decoder refused a block of the parser: nothing that
				// follows can be compared
				return false
			}
			seqs, lits = seqs[k:], lits[l:]
		}
		return true
	}
	dwrite := func(q []byte) bool {
		for attempt := 0; attempt < 8; attempt++ {
			var n int
			var err error
			w.beginCall("dec.write")
			if !rec.Call("dec.write", func() { n, err = d.Write(q) }) {
				return false
			}
			rec.Emit(Event{"op": "dec.write", "p": B(q), "n": n, "err": decErr(err), "wcalls": w.wcalls})
			if err != errHarnessWriter || n < 0 || n > len(q) {
				return true
			}
			q = q[n:]
		}
		return true
	}
	flush := func() bool {
		for attempt := 0; attempt < 8; attempt++ {
			var err error
			w.beginCall("dec.flush")
			if !rec.Call("dec.flush", func() { err = d.Flush() }) {
				return false
			}
			rec.Emit(Event{"op": "dec.flush", "err": decErr(err), "wcalls": w.wcalls})
			if err != errHarnessWriter {
				return true
			}
		}
		return true
	}

	for _, op := range s.Ops {
		if str(op["op"]) != "e2e" {
			if !pd.do(op) {
				return
			}
			continue
		}
		data := bytesOf(op["data"])
		chunk := int(num(op["chunk"]))
		if chunk <= 0 {
			chunk = len(data) + 1
		}
		pNTL, pNil, pFlush := int(num(op["pntl"])), int(num(op["pnil"])), int(num(op["pflush"]))
		rng := newLCG(uint64(num(op["seed"])))
		parsed := int64(0) // absolute position of the parser (for the skipped bytes)
		fed := []byte{}
		budget := 6*len(data) + 64
		// look > 0: an encoder that keeps a lookahead - it stops parsing
		// while that many bytes are still unparsed, so that Shrink is called
		// with unparsed data in the buffer
		look := int64(num(op["look"]))
		lookNow := int64(0)
		drain := func() bool {
			for budget > 0 {
				if lookNow > 0 && int64(len(fed))-parsed <= lookNow {
					return true
				}
				budget--
				if rng.pct(pNil) {
					if !pd.do(map[string]any{"op": "parsenil"}) {
						return false
					}
					e := rec.last
					if e["err"] != "" {
						return true
					}
					n := int64(num(e["n"]))
					if parsed+n > int64(len(fed)) || n < 0 {
						return false
					}
					if !dwrite(fed[parsed : parsed+n]) {
						return false
					}
					parsed += n
					continue
				}
				fl := 0
				if rng.pct(pNTL) {
					fl = 1
				}
				blk := lz.Block{Sequences: append([]lz.Seq{}, junkSeqs...), Literals: append([]byte{}, junkLits...)}
				var n int
				var err error
				if !rec.Call("parse", func() { n, err = p.Parse(&blk, fl) }) {
					return false
				}
				rec.Emit(Event{"op": "parse", "flags": fl, "n": n, "err": pErr(err),
					"seqs": seqsJSON(blk.Sequences), "lits": B(blk.Literals)})
				if err != nil {
					return true
				}
				parsed += int64(n)
				if !wblock(blk) {
					return false
				}
				if rng.pct(pFlush) {
					if !flush() {
						return false
					}
				}
			}
			return true
		}
		rest := data
		stuck := 0
		for len(rest) > 0 && budget > 0 && stuck < 3 {
			budget--
			c := rest
			if len(c) > chunk {
				c = c[:chunk]
			}
			if !pd.do(map[string]any{"op": "write", "p": B(c)}) {
				return
			}
			n := int(num(rec.last["n"]))
			if n < 0 || n > len(c) {
				return
			}
			fed = append(fed, c[:n]...)
			rest = rest[n:]
			if n < len(c) || rng.pct(30) {
				lookNow = look
				if !drain() {
					return
				}
				lookNow = 0
				if !pd.do(map[string]any{"op": "shrink"}) {
					return
				}
				if n == 0 && num(rec.last["delta"]) == 0 {
					stuck++
				} else {
					stuck = 0
				}
			}
		}
		if !drain() || !flush() {
			return
		}
	}
}

// genE2E: inputs that make long sequences relative to the decoder buffer
// (BlockSize > WindowSize on runs / periodic inputs) next to ordinary ones.
func genE2E(seed int64, n int, tier string) []Script {
	r := rand.New(rand.NewSource(seed))
	var out []Script
	for i := 0; i < n; i++ {
		kind := parserKinds[i%len(parserKinds)]
		cfg := genParserCfg(r, kind, 200)
		W := pickInt(r, 4, 8, 16, 32, 64, 100)
		cfg["WindowSize"] = W
		B := int(num(cfg["BufferSize"]))
		if r.Intn(2) == 0 {
			// blocks larger than the window: sequences longer than W
			cfg["BlockSize"] = pickInt(r, 2*W, 3*W+1, 200)
			if B < 2*W {
				cfg["BufferSize"] = 2*W + r.Intn(100)
				cfg["ShrinkSize"] = 0
			}
		}
		if kind == "GSAP" && int(num(cfg["MinMatchLen"])) > W {
			cfg["MinMatchLen"] = 2
		}
		cfg["dbuf"] = pickStr(r, "", "w+1", "w+3", "2w", "4w", "blk")
		var sched []any
		if r.Intn(3) == 0 {
			for j := 0; j < 2+r.Intn(8); j++ {
				if r.Intn(3) == 0 {
					sched = append(sched, []any{r.Intn(2*W + 1), r.Intn(2)})
				} else {
					sched = append(sched, []any{-1, 0})
				}
			}
		}
		if sched == nil {
			sched = []any{}
		}
		cfg["wsched"] = sched
		data, class := genInput(r, r.Intn(500))
		op := map[string]any{"op": "e2e", "data": B2(data), "chunk": pickInt(r, 1, 7, int(num(cfg["BufferSize"])), 1000, 50),
			"seed": r.Intn(1 << 30), "pntl": pickInt(r, 0, 0, 30, 100), "pnil": pickInt(r, 0, 0, 15), "pflush": pickInt(r, 0, 20, 100),
			"look": 0}
		if r.Intn(2) == 0 {
			// a lookahead of one or two blocks: the next Parse after a Shrink
			// works on data the parser has seen before the Shrink
			blkSize := int(num(cfg["BlockSize"]))
			if blkSize <= 0 || blkSize > 200 {
				blkSize = 16
			}
			op["look"] = pickInt(r, 3, blkSize, 2*blkSize+1, 17)
		}
		out = append(out, Script{Tid: "e2e-" + itoa(seed) + "-" + itoa(int64(i)), Comp: "e2e", Cfg: cfg,
			Ops: []map[string]any{op}, Tags: []string{"go", kind, class}})
	}
	// lookahead encoders on purpose: one big Write fills the buffer, several
	// small blocks are parsed from it (more than ShrinkSize bytes), one or
	// two blocks stay unparsed, Shrink, Write, and the next blocks lie in
	// data the parser has seen before the Shrink (what a parser computed
	// for those positions must have moved with them)
	for i := 0; i < n/10; i++ {
		kind := []string{"OSAP", "GSAP", "OSAP", "HP", "BUP", "DHP"}[i%6]
		B := 96 + r.Intn(105)
		blk := pickInt(r, 8, 12, 16)
		cfg := map[string]any{"kind": kind, "BufferSize": B, "ShrinkSize": B / 4, "WindowSize": pickInt(r, 32, 64, 100), "BlockSize": blk}
		switch kind {
		case "HP":
			cfg["InputLen"], cfg["HashBits"] = 3, 8
		case "BUP":
			cfg["InputLen"], cfg["HashBits"], cfg["BucketSize"] = 3, 6, 2
		case "DHP":
			cfg["InputLen1"], cfg["HashBits1"], cfg["InputLen2"], cfg["HashBits2"] = 2, 8, 4, 8
		default:
			cfg["MinMatchLen"] = pickInt(r, 2, 3)
		}
		cfg["dbuf"] = pickStr(r, "", "2w", "4w")
		cfg["wsched"] = []any{}
		// words over a small vocabulary: many different matches
		words := make([][]byte, 12)
		for k := range words {
			wd := make([]byte, 2+r.Intn(6))
			for x := range wd {
				wd[x] = byte('a' + r.Intn(6))
			}
			words[k] = wd
		}
		var data []byte
		for len(data) < 3*B+r.Intn(B) {
			data = append(data, words[r.Intn(len(words))]...)
			data = append(data, ' ')
		}
		op := map[string]any{"op": "e2e", "data": B2(data), "chunk": B, "seed": r.Intn(1 << 30), "pntl": 0, "pnil": 0,
			"pflush": pickInt(r, 0, 20), "look": pickInt(r, blk, 2*blk+1)}
		out = append(out, Script{Tid: "e2e-look-" + itoa(seed) + "-" + itoa(int64(i)), Comp: "e2e", Cfg: cfg,
			Ops: []map[string]any{op}, Tags: []string{"go", kind, "lookahead"}})
	}
	return out
}

func init() {
	components["e2e"] = runE2E
	generators["e2e"] = genE2E
}
