package main

import (
	"bufio"
	"encoding/json"
	"errors"
	"fmt"
	"io"
	"os"
	"sync"
	"time"

	"github.com/ulikunitz/lz"
)

// Event is one recorded line.
type Event map[string]any

// Rec writes events. It is used by one script goroutine at a time; the mutex
// only protects against the watchdog path.
type Rec struct {
	mu    sync.Mutex
	w     *bufio.Writer
	watch *watch
	last  Event // the most recently recorded event
}

func (r *Rec) emitLocked(ev Event) {
	b, err := json.Marshal(ev)
	if err != nil {
		fmt.Fprintln(os.Stderr, "lzdrive: marshal:", err)
		os.Exit(2)
	}
	r.w.Write(b)
	r.w.WriteByte('\n')
}

// Emit records one event.
func (r *Rec) Emit(ev Event) {
	r.last = ev
	r.mu.Lock()
	r.emitLocked(ev)
	r.mu.Unlock()
}

// watch is the per-call watchdog.
type watch struct {
	d       time.Duration
	mu      sync.Mutex
	timer   *time.Timer
	expired chan string
	dead    bool
}

func newWatch(d time.Duration) *watch {
	return &watch{d: d, expired: make(chan string, 1)}
}

func (w *watch) begin(in string) {
	w.mu.Lock()
	defer w.mu.Unlock()
	if w.dead {
		return
	}
	w.timer = time.AfterFunc(w.d, func() {
		select {
		case w.expired <- in:
		default:
		}
	})
}

func (w *watch) end() {
	w.mu.Lock()
	defer w.mu.Unlock()
	if w.timer != nil {
		w.timer.Stop()
		w.timer = nil
	}
}

func (w *watch) stop() {
	w.mu.Lock()
	w.dead = true
	if w.timer != nil {
		w.timer.Stop()
	}
	w.mu.Unlock()
}

// livelock is the sentinel a harness writer/reader panics with when the code
// under test keeps calling it without making progress.
type livelock struct{ in string }

// Call runs one public call under recover and the watchdog. It reports
// whether the call returned normally; if not, a "panic" or "livelock" event
// has been recorded and the script must stop.
func (r *Rec) Call(in string, fn func()) (ok bool) {
	if r.watch != nil {
		r.watch.begin(in)
		defer r.watch.end()
	}
	defer func() {
		if x := recover(); x != nil {
			if ll, isLL := x.(livelock); isLL {
				r.Emit(Event{"op": "livelock", "in": in, "where": ll.in})
			} else {
				r.Emit(Event{"op": "panic", "in": in, "msg": fmt.Sprint(x)})
			}
			ok = false
		}
	}()
	fn()
	return true
}

// B converts bytes to a JSON array of integers (never null).
func B(p []byte) []int {
	out := make([]int, len(p))
	for i, c := range p {
		out[i] = int(c)
	}
	return out
}

// errHarnessWriter / errHarnessReader are the harness' own fault values.
var (
	errHarnessWriter  = errors.New("verif: injected writer fault")
	errHarnessReader  = errors.New("verif: injected reader fault")
	errHarnessReader2 = errors.New("verif: injected reader fault 2")
)

// decErr classifies a decoder error: only nil / capacity / the writer's own
// error / anything else matter.
func decErr(err error) string {
	switch {
	case err == nil:
		return ""
	case err == lz.ErrFullBuffer:
		return "full"
	case err == errHarnessWriter:
		return "writer"
	case err == io.ErrShortWrite:
		// what the scripted writer returns for bufio-style faults
		return "writer"
	default:
		return "other:" + err.Error()
	}
}

// ---- helpers to read script values ----

func num(v any) int64 {
	switch x := v.(type) {
	case json.Number:
		i, err := x.Int64()
		if err != nil {
			f, _ := x.Float64()
			return int64(f)
		}
		return i
	case float64:
		return int64(x)
	case int:
		return int64(x)
	case int64:
		return x
	case nil:
		return 0
	}
	panic(fmt.Sprintf("lzdrive: not a number: %T %v", v, v))
}

func str(v any) string {
	if v == nil {
		return ""
	}
	return v.(string)
}

func boolean(v any) bool {
	if v == nil {
		return false
	}
	return v.(bool)
}

func bytesOf(v any) []byte {
	if v == nil {
		return []byte{}
	}
	switch x := v.(type) {
	case []int:
		out := make([]byte, len(x))
		for i, c := range x {
			out[i] = byte(c)
		}
		return out
	case []byte:
		return append([]byte{}, x...)
	}
	a := v.([]any)
	out := make([]byte, len(a))
	for i, x := range a {
		out[i] = byte(num(x))
	}
	return out
}

func seqsOf(v any) []lz.Seq {
	if v == nil {
		return []lz.Seq{}
	}
	a := v.([]any)
	out := make([]lz.Seq, len(a))
	for i, x := range a {
		t := x.([]any)
		out[i] = lz.Seq{
			LitLen:   uint32(num(t[0])),
			MatchLen: uint32(num(t[1])),
			Offset:   uint32(num(t[2])),
		}
		if len(t) > 3 {
			out[i].Aux = uint32(num(t[3]))
		}
	}
	return out
}

// sat saturates a uint32 at 2^29: TLC integers are 32-bit, and every real
// length in a recorded trace is far below that (see spec/LZ77.tla, Huge).
func sat(v uint32) int64 {
	if v > 1<<29 {
		return 1 << 29
	}
	return int64(v)
}

func seqsJSON(s []lz.Seq) [][]int64 {
	out := make([][]int64, len(s))
	for i, q := range s {
		out[i] = []int64{sat(q.LitLen), sat(q.MatchLen), sat(q.Offset), sat(q.Aux)}
	}
	return out
}

func fmtInt(i int64) string { return fmt.Sprintf("%d", i) }

func seqsEqual(a, b []lz.Seq) bool {
	if len(a) != len(b) {
		return false
	}
	for i := range a {
		if a[i] != b[i] {
			return false
		}
	}
	return true
}
