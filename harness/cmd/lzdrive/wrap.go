package main

import (
	"io"
	"math/rand"

	"github.com/ulikunitz/lz"
)

// wrapReader is the io.Reader handed to lz.Wrap: call i hands out at most
// calls[i].max bytes of src together with calls[i].err. Beyond the script it
// hands out as much as fits. io.EOF is sticky: once returned (scripted, or
// because the data is exhausted) every further call returns (0, io.EOF).
// With eofWith the last bytes come together with io.EOF. It never returns
// (0, nil). Every call is logged as [len(p), k, err, bytes].
type wrapReader struct {
	src     []byte
	calls   [][2]any
	i       int
	eofWith bool
	eof     bool
	log     []any
	idle    int
}

func (r *wrapReader) Read(p []byte) (int, error) {
	if r.eof {
		r.log = append(r.log, []any{len(p), 0, "eof", []int{}})
		return 0, io.EOF
	}
	max, ec := len(p), ""
	if r.i < len(r.calls) {
		max = int(num(r.calls[r.i][0]))
		ec = str(r.calls[r.i][1])
		r.i++
	}
	k := len(r.src)
	if k > max {
		k = max
	}
	if k > len(p) {
		k = len(p)
	}
	if k == 0 && ec == "" && len(r.src) > 0 && len(p) > 0 {
		k = 1 // never (0, nil)
	}
	copy(p, r.src[:k])
	r.src = r.src[k:]
	if ec == "" && len(r.src) == 0 && (k == 0 || r.eofWith) {
		ec = "eof"
	}
	if ec == "eof" {
		r.eof = true
	}
	err := classErr(ec)
	if len(p) == 0 && err == nil {
		r.idle++
		if r.idle >= 8 {
			panic(livelock{in: "reader called 8 times in a row with an empty slice"})
		}
	} else {
		r.idle = 0
	}
	r.log = append(r.log, []any{len(p), k, pErr(err), B(p[:k])})
	return k, err
}

func newWrapReader(m map[string]any) *wrapReader {
	r := &wrapReader{src: bytesOf(m["src"]), eofWith: boolean(m["eofwith"]), log: []any{}}
	if v, ok := m["rcalls"]; ok && v != nil {
		for _, x := range v.([]any) {
			t := x.([]any)
			r.calls = append(r.calls, [2]any{t[0], t[1]})
		}
	}
	return r
}

// proxyParser implements lz.Parser around the real parser and records the
// calls the wrapper makes on it (same event format as the parser component).
type proxyParser struct {
	p   lz.Parser
	rec *Rec
	rdr **wrapReader
	run string
	// inner calls since the last user call, for the livelock rule
	innerCalls int
}

func (x *proxyParser) ev(e Event) Event {
	if x.run != "" {
		e["run"] = x.run
	}
	return e
}

func (x *proxyParser) tick() {
	x.innerCalls++
	// a wrapper that makes progress needs a handful of inner calls per
	// Parse (Parse, Shrink, ReadFrom, Parse)
	if x.innerCalls > 300 {
		panic(livelock{in: "wrapper made more than 300 inner calls inside one Parse"})
	}
}

func (x *proxyParser) Parse(blk *lz.Block, flags int) (int, error) {
	x.tick()
	n, err := x.p.Parse(blk, flags)
	if blk == nil {
		x.rec.Emit(x.ev(Event{"op": "parsenil", "n": n, "err": pErr(err)}))
	} else {
		x.rec.Emit(x.ev(Event{"op": "parse", "flags": flags, "n": n, "err": pErr(err),
			"seqs": seqsJSON(blk.Sequences), "lits": B(blk.Literals)}))
	}
	return n, err
}

func (x *proxyParser) Reset(data []byte) error {
	err := x.p.Reset(data)
	x.rec.Emit(x.ev(Event{"op": "reset", "data": B(data), "cap": cap(data) - len(data), "err": pErr(err)}))
	return err
}

func (x *proxyParser) Shrink() int {
	x.tick()
	d := x.p.Shrink()
	x.rec.Emit(x.ev(Event{"op": "shrink", "delta": d}))
	return d
}

func (x *proxyParser) ReadFrom(r io.Reader) (int64, error) {
	x.tick()
	rd := *x.rdr
	start := len(rd.log)
	n, err := x.p.ReadFrom(r)
	calls := append([]any{}, rd.log[start:]...)
	x.rec.Emit(x.ev(Event{"op": "readfrom", "calls": calls, "n": n, "err": pErr(err)}))
	return n, err
}

func (x *proxyParser) Write(p []byte) (int, error) {
	n, err := x.p.Write(p)
	x.rec.Emit(x.ev(Event{"op": "write", "p": B(p), "n": n, "err": pErr(err)}))
	return n, err
}

func (x *proxyParser) ParserConfig() lz.ParserConfig                { return x.p.ParserConfig() }
func (x *proxyParser) BufferConfig() lz.BufConfig                   { return x.p.BufferConfig() }
func (x *proxyParser) ReadAt(p []byte, off int64) (int, error)      { return x.p.ReadAt(p, off) }
func (x *proxyParser) ByteAt(off int64) (byte, error)               { return x.p.ByteAt(off) }

// wdrv drives one WrappedParser.
type wdrv struct {
	wp    *lz.WrappedParser
	proxy *proxyParser
	rdr   *wrapReader
	rec   *Rec
	run   string
	// reuse: the consumer hands the same Block to every Parse call (the
	// usual way to use the API); otherwise every call gets a fresh one
	reuse bool
	blk   lz.Block
}

func (d *wdrv) ev(e Event) Event {
	if d.run != "" {
		e["run"] = d.run
	}
	return e
}

func (d *wdrv) do(op map[string]any) bool {
	name := str(op["op"])
	rec := d.rec
	switch name {
	case "wparse", "wparsenil":
		flags := int(num(op["flags"]))
		var blk *lz.Block
		if name == "wparse" {
			blk = &lz.Block{Sequences: append([]lz.Seq{}, junkSeqs...), Literals: append([]byte{}, junkLits...)}
			if d.reuse {
				if d.blk.Sequences == nil {
					d.blk = *blk
				}
				blk = &d.blk
				for i := range blk.Sequences {
					blk.Sequences[i].Aux = 7
				}
			}
		}
		start := len(d.rdr.log)
		d.proxy.innerCalls = 0
		var n int
		var err error
		if !rec.Call(name, func() { n, err = d.wp.Parse(blk, flags) }) {
			return false
		}
		reads := append([]any{}, d.rdr.log[start:]...)
		e := Event{"op": name, "flags": flags, "n": n, "err": pErr(err), "reads": reads}
		if blk != nil {
			e["seqs"] = seqsJSON(blk.Sequences)
			e["lits"] = B(blk.Literals)
		}
		rec.Emit(d.ev(e))
	case "wreset":
		nr := newWrapReader(op)
		d.rdr = nr
		if !rec.Call(name, func() { d.wp.Reset(nr) }) {
			return false
		}
		rec.Emit(d.ev(Event{"op": name}))
	case "wpump":
		// the usual consumer loop: Parse until io.EOF; a reader error is
		// simply retried (the scripted reader "recovers" by itself)
		rng := newLCG(uint64(num(op["seed"])))
		pNTL, pNil := int(num(op["pntl"])), int(num(op["pnil"]))
		// Every successful call delivers at least one byte and every error
		// return uses up one scripted reader fault, so a wrapper that makes
		// progress reaches io.EOF within len(src)+len(script)+1 calls.
		budget := int(num(op["budget"]))
		limited := budget > 0
		if !limited {
			budget = 2*(len(d.rdr.src)+len(d.rdr.calls)) + 16
		}
		after := 2 // calls after EOF (sticky)
		for budget > 0 {
			budget--
			o := map[string]any{"op": "wparse", "flags": 0}
			if rng.pct(pNil) {
				o["op"] = "wparsenil"
			}
			if rng.pct(pNTL) {
				o["flags"] = 1
			}
			if !d.do(o) {
				return false
			}
			switch rec.last["err"] {
			case "eof":
				after--
				if after < 0 {
					return true
				}
			case "", "reader", "reader2":
			default:
				return true
			}
		}
		if !limited {
			rec.Emit(d.ev(Event{"op": "stalled", "in": "wpump"}))
			return false
		}
	default:
		panic("lzdrive: wrap: unknown op " + name)
	}
	return true
}

func newWrapDriver(s *Script, rec *Rec, run string) *wdrv {
	p, _ := makeParser(s, rec)
	if p == nil {
		return nil
	}
	d := &wdrv{rec: rec, run: run, reuse: boolean(s.Cfg["reuse"])}
	d.rdr = newWrapReader(s.Cfg)
	d.proxy = &proxyParser{p: p, rec: rec, rdr: &d.rdr, run: run}
	d.wp = lz.Wrap(readerIndirect{&d.rdr}, d.proxy)
	return d
}

// readerIndirect lets Wrap keep one io.Reader value while wreset swaps the
// scripted reader (WrappedParser.Reset gets the new reader explicitly; this
// indirection is only used for the reader passed at construction).
type readerIndirect struct{ r **wrapReader }

func (x readerIndirect) Read(p []byte) (int, error) { return (*x.r).Read(p) }

func runWrap(s *Script, rec *Rec) {
	d := newWrapDriver(s, rec, "")
	if d == nil {
		return
	}
	kind := str(s.Cfg["kind"])
	rec.Emit(Event{"op": "begin", "tid": s.Tid, "comp": "wrap", "c": specCfg(kind, d.proxy.p),
		"reported": cfgFields(d.proxy.p.ParserConfig())})
	defer rec.Emit(Event{"op": "end"})
	for _, op := range s.Ops {
		if !d.do(op) {
			return
		}
	}
}

// ---------------------------------------------------------------------
// Go-side generator: inputs around the buffer/block geometry, reader
// chunkings, fault placements
// ---------------------------------------------------------------------

func genReaderCalls(r *rand.Rand, total int, faults bool) ([]any, bool) {
	var calls []any
	eofWith := r.Intn(3) == 0
	style := r.Intn(5)
	ncalls := 0
	switch style {
	case 0: // whole reads
	case 1: // single bytes
		ncalls = total + 2
	default:
		ncalls = r.Intn(total/2 + 3)
	}
	for i := 0; i < ncalls; i++ {
		mx := 1
		if style >= 2 {
			mx = 1 + r.Intn(pickInt(r, 2, 5, 17, 64))
		}
		calls = append(calls, []any{mx, ""})
	}
	if faults {
		nf := 1 + r.Intn(3)
		for f := 0; f < nf; f++ {
			pos := r.Intn(len(calls) + 1)
			ec := "reader"
			if r.Intn(3) == 0 {
				ec = "reader2"
			}
			mx := pickInt(r, 0, 0, 1, 3, 1000)
			c := []any{mx, ec}
			calls = append(calls[:pos], append([]any{c}, calls[pos:]...)...)
		}
		if r.Intn(4) == 0 { // a fault after all data
			calls = append(calls, []any{1000, ""}, []any{0, "reader"})
		}
	}
	if calls == nil {
		calls = []any{}
	}
	return calls, eofWith
}

func genWrapInputLen(r *rand.Rand, B, Blk, maxLen int) int {
	if Blk <= 0 || Blk > 1<<20 {
		Blk = 64
	}
	switch r.Intn(8) {
	case 0:
		return 0
	case 1:
		return r.Intn(B + 1)
	case 2:
		return B
	case 3:
		return minI(maxLen, B*(1+r.Intn(4)))
	case 4:
		return minI(maxLen, Blk*(1+r.Intn(6)))
	case 5:
		return minI(maxLen, B+1+r.Intn(3))
	default:
		return r.Intn(maxLen)
	}
}

func minI(a, b int) int {
	if a < b {
		return a
	}
	return b
}

func genWrap(seed int64, n int, tier string) []Script {
	r := rand.New(rand.NewSource(seed))
	maxLen, maxB := 400, 200
	if tier == "thorough" {
		maxLen, maxB = 600, 300
	}
	var out []Script
	for i := 0; i < n; i++ {
		kind := parserKinds[i%len(parserKinds)]
		cfg := genParserCfg(r, kind, maxB)
		B := int(num(cfg["BufferSize"]))
		total := genWrapInputLen(r, B, int(num(cfg["BlockSize"])), maxLen)
		data, class := genInput(r, total)
		if (r.Intn(8) == 0 || ((kind == "OSAP" || kind == "GSAP") && r.Intn(3) == 0)) && B >= 16 && B <= 250 {
			// a first buffer fill without any repeated gram (every byte
			// value once), then compressible data: the parser hands out a
			// literal-only block first and blocks with matches after the
			// refill
			data = data[:0]
			for j := 0; j < B; j++ {
				data = append(data, byte(j))
			}
			for j := 0; j < 2*B+r.Intn(maxLen); j++ {
				data = append(data, byte('a'+r.Intn(4)))
			}
			class = "distinct-then-compressible"
		}
		faults := r.Intn(3) == 0
		calls, eofWith := genReaderCalls(r, len(data), faults)
		cfg["src"], cfg["rcalls"], cfg["eofwith"] = B2(data), calls, eofWith
		cfg["reuse"] = r.Intn(2) == 0 || class == "distinct-then-compressible"
		tags := []string{"go", kind, class}
		if faults {
			tags = append(tags, "faults")
		}
		ops := []map[string]any{{"op": "wpump", "seed": r.Intn(1 << 30),
			"pntl": pickInt(r, 0, 0, 30, 100), "pnil": pickInt(r, 0, 0, 0, 20)}}
		if r.Intn(6) == 0 {
			// second stream through the same wrapper after Reset
			d2, _ := genInput(r, genWrapInputLen(r, B, int(num(cfg["BlockSize"])), maxLen/2))
			c2, e2 := genReaderCalls(r, len(d2), r.Intn(4) == 0)
			// stop the first pump early in half of the cases
			if r.Intn(2) == 0 {
				ops[0]["budget"] = 1 + r.Intn(6)
			}
			ops = append(ops, map[string]any{"op": "wreset", "src": B2(d2), "rcalls": c2, "eofwith": e2},
				map[string]any{"op": "wpump", "seed": r.Intn(1 << 30), "pntl": pickInt(r, 0, 50), "pnil": 0})
			tags = append(tags, "wreset")
		}
		out = append(out, Script{Tid: "wrap-" + itoa(seed) + "-" + itoa(int64(i)), Comp: "wrap", Cfg: cfg, Ops: ops, Tags: tags})
	}
	return out
}

// genWrapDefault: the default configuration (8 MiB buffer and window, 128 KiB
// blocks: the buffer slice grows through intermediate capacities) with
// streams whose length lies around the first intermediate capacity
// (64 KiB + 7), delivered in large reads, the last one together with io.EOF
// or with an error. Incompressible data keeps the blocks (and TLC's work)
// small: one literal run per block.
func genWrapDefault(seed int64, n int, tier string) []Script {
	r := rand.New(rand.NewSource(seed))
	var out []Script
	kinds := []string{"HP", "BHP", "DHP", "BDHP", "BUP"}
	for i := 0; i < n; i++ {
		kind := kinds[i%len(kinds)]
		cfg := map[string]any{"kind": kind}
		total := 65536 + pickInt(r, -6, -1, 0, 1, 3, 4, 5, 6, 7, 8, 9, 14)
		if r.Intn(4) == 0 {
			total = pickInt(r, 1017, 1024, 1031, 2055, 131072+7, 131072)
		}
		data := make([]byte, total)
		r.Read(data)
		calls := []any{}
		switch r.Intn(3) {
		case 0: // one read with everything and io.EOF
			cfg["eofwith"] = true
		case 1: // everything but a few bytes, then the rest with an error, then EOF
			calls = append(calls, []any{total - r.Intn(9), ""}, []any{100, "reader"})
			cfg["eofwith"] = r.Intn(2) == 0
		default:
			calls = append(calls, []any{32768, ""}, []any{32768 + r.Intn(16), ""})
			cfg["eofwith"] = true
		}
		cfg["src"], cfg["rcalls"] = B2(data), calls
		cfg["reuse"] = r.Intn(2) == 0
		out = append(out, Script{Tid: "wrap-default-" + itoa(seed) + "-" + itoa(int64(i)), Comp: "wrap", Cfg: cfg,
			Ops: []map[string]any{{"op": "wpump", "seed": r.Intn(1 << 30), "pntl": 0, "pnil": 0}},
			Tags: []string{"go", kind, "defaultconfig"}})
	}
	return out
}

func init() {
	components["wrap"] = runWrap
	generators["wrap"] = genWrap
	generators["wrap-default"] = genWrapDefault
}
