package main

import (
	"github.com/ulikunitz/lz"
	"math/rand"
	"sort"

	"github.com/ulikunitz/lz/suffix"
)

// Component "suffix": suffix.Sort / InvertSA / LCP / Segments (and, under
// the verif build tag, SortCfg with other introsort thresholds) on the texts
// of the script; one event per call group, judged by SuffixDefs.tla.

func i32(a []int32) []int {
	out := make([]int, len(a))
	for i, x := range a {
		out[i] = int(x)
	}
	return out
}

func garbage(n int, seed int) []int32 {
	sa := make([]int32, n)
	for i := range sa {
		switch seed % 4 {
		case 0:
			sa[i] = 0
		case 1:
			sa[i] = -1
		case 2:
			sa[i] = int32(n - 1 - i)
		default:
			sa[i] = int32((i*7919 + seed) % (n + 3))
		}
	}
	return sa
}

// naiveSA is input preparation for Segments (TLC validates it like any
// other suffix array before it judges the callbacks).
func naiveSA(t []byte) []int32 {
	sa := make([]int32, len(t))
	for i := range sa {
		sa[i] = int32(i)
	}
	sort.Slice(sa, func(a, b int) bool { return string(t[sa[a]:]) < string(t[sa[b]:]) })
	return sa
}

func naiveLCP(t []byte, sa []int32) []int32 {
	lcp := make([]int32, len(sa))
	for i := 1; i < len(sa); i++ {
		a, b := t[sa[i-1]:], t[sa[i]:]
		k := 0
		for k < len(a) && k < len(b) && a[k] == b[k] {
			k++
		}
		lcp[i] = int32(k)
	}
	return lcp
}

func runSuffix(s *Script, rec *Rec) {
	rec.Emit(Event{"op": "begin", "tid": s.Tid, "comp": "suffix"})
	defer rec.Emit(Event{"op": "end"})
	for idx, op := range s.Ops {
		name := str(op["op"])
		t := bytesOf(op["t"])
		orig := append([]byte{}, t...)
		switch name {
		case "suffix", "suffixcfg":
			e := Event{"op": name, "t": B(orig)}
			sa := garbage(len(t), idx)
			ok := rec.Call(name, func() {
				if name == "suffix" {
					suffix.Sort(t, sa)
				} else {
					st, trst := int(num(op["st"])), int(num(op["trst"]))
					e["st"], e["trst"] = st, trst
					suffix.SortCfg(t, sa, st, trst)
				}
			})
			if !ok {
				return
			}
			e["sa"] = i32(sa)
			e["tafter"] = B(t)
			// the inverse is only defined for a permutation; out-of-range
			// entries would make InvertSA index out of range, which is a
			// consequence of a wrong sa, not a defect of InvertSA
			inRange := true
			for _, x := range sa {
				if x < 0 || int(x) >= len(sa) {
					inRange = false
				}
			}
			sainv := make([]int32, len(sa))
			if inRange {
				if !rec.Call("invertsa", func() { suffix.InvertSA(sa, sainv) }) {
					return
				}
			}
			e["sainv"] = i32(sainv)
			if name == "suffix" && inRange && !boolean(op["nolcp"]) {
				var lcps [][]int
				for v := 0; v < 4; v++ {
					lcp := make([]int32, len(t))
					for i := range lcp {
						lcp[i] = int32(-7 - v)
					}
					var a, b []int32
					if v&1 != 0 {
						a = append([]int32{}, sa...)
					}
					if v&2 != 0 {
						b = append([]int32{}, sainv...)
					}
					if !rec.Call("lcp", func() { suffix.LCP(t, a, b, lcp) }) {
						return
					}
					lcps = append(lcps, i32(lcp))
				}
				e["lcps"] = lcps
				e["tafter"] = B(t)
			} else if name == "suffix" {
				e["lcps"] = [][]int{}
			}
			rec.Emit(e)
		case "lcplcs":
			// lcp / lcs of bytes.go on a case enumerated by WordOps.tla
			pp, qq := bytesOf(op["p"]), bytesOf(op["q"])
			var a, b int
			if !rec.Call(name, func() { a, b = lz.VerifLcpLcs(pp, qq) }) {
				return
			}
			rec.Emit(Event{"op": name, "p": B(pp), "q": B(qq), "lcp": a, "lcs": b})
		case "trsort":
			// the whole rank sort on an input enumerated by TrSortMC.tla
			// (verif export VerifTrSort); the ranks at the start of every
			// round come from the VerifStage hook
			toI := func(v any) []int32 {
				a, _ := v.([]any)
				out := make([]int32, len(a))
				for i, x := range a {
					out[i] = int32(num(x))
				}
				return out
			}
			sa, isa := toI(op["sa"]), toI(op["isa"])
			e := Event{"op": name, "sa": i32(sa), "isa": i32(isa), "thr": int(num(op["thr"]))}
			rounds := [][]int{}
			suffix.VerifStage = func(stage int, a []int32) {
				if stage == 7 {
					rounds = append(rounds, i32(a))
				}
			}
			ok := rec.Call(name, func() { suffix.VerifTrSort(sa, isa, int(num(op["thr"]))) })
			suffix.VerifStage = nil
			if !ok {
				return
			}
			e["sa_after"], e["isa_after"], e["rounds"] = i32(sa), i32(isa), rounds
			rec.Emit(e)
		case "sortprim":
			// trHeapSort / trInsertionSort on an input enumerated by
			// SortPrims.tla (verif export VerifTrSortPrim)
			ka, _ := op["keys"].([]any)
			keys := make([]int32, len(ka))
			sa := make([]int32, len(ka))
			for i, x := range ka {
				keys[i] = int32(num(x))
				sa[i] = int32(i)
			}
			e := Event{"op": name, "fn": str(op["fn"]), "keys": i32(keys)}
			if !rec.Call(name, func() { suffix.VerifTrSortPrim(str(op["fn"]) == "heap", sa, keys) }) {
				return
			}
			e["sa_after"] = i32(sa)
			rec.Emit(e)
		case "trcopy":
			// one call of trCopy / trPartialCopy in a situation enumerated by
			// TrCopy.tla (verif export VerifTrCopy)
			toI32 := func(v any) []int32 {
				a, _ := v.([]any)
				out := make([]int32, len(a))
				for i, x := range a {
					out[i] = int32(num(x))
				}
				return out
			}
			sa, isa := toI32(op["sa"]), toI32(op["isa"])
			e := Event{"op": name, "sa": i32(sa), "isa": i32(isa), "first": int(num(op["first"])), "a": int(num(op["a"])),
				"b": int(num(op["b"])), "last": int(num(op["last"])), "depth": int(num(op["depth"])), "partial": boolean(op["partial"])}
			ok := rec.Call(name, func() {
				suffix.VerifTrCopy(sa, isa, int(num(op["first"])), int(num(op["a"])), int(num(op["b"])),
					int(num(op["last"])), int(num(op["depth"])), boolean(op["partial"]))
			})
			if !ok {
				return
			}
			e["sa_after"], e["isa_after"] = i32(sa), i32(isa)
			rec.Emit(e)
		case "suffixstages":
			// the arrays of the sort driver between its stages (verif hook),
			// compared with the stage model DivSufSort.tla
			e := Event{"op": name, "t": B(orig)}
			sa := garbage(len(t), idx)
			stages := map[int][]int{}
			rounds := [][]int{}
			suffix.VerifStage = func(stage int, a []int32) {
				if stage == 7 {
					rounds = append(rounds, i32(a))
					return
				}
				stages[stage] = i32(a)
			}
			st, trst := int(num(op["st"])), int(num(op["trst"]))
			if st > 0 || trst > 0 {
				// other introsort thresholds (SortCfg hook): the fall-back
				// paths of both sorting engines on short texts
				e["st"], e["trst"] = st, trst
			}
			ok := rec.Call(name, func() {
				if st > 0 || trst > 0 {
					suffix.SortCfg(t, sa, st, trst)
				} else {
					suffix.Sort(t, sa)
				}
			})
			suffix.VerifStage = nil
			if !ok {
				return
			}
			e["sa"] = i32(sa)
			e["m"] = len(stages[4])
			e["rounds"] = rounds
			for _, k := range []int{1, 2, 3, 4, 5, 6} {
				if a, ok := stages[k]; ok {
					e["s"+itoa(int64(k))] = a
				} else {
					e["s"+itoa(int64(k))] = []int{}
				}
			}
			rec.Emit(e)
		case "segments":
			minLen, maxLen := int(num(op["minlen"])), int(num(op["maxlen"]))
			var sa, lcp []int32
			if str(op["src"]) == "naive" {
				sa = naiveSA(t)
				lcp = naiveLCP(t, sa)
			} else {
				sa = make([]int32, len(t))
				lcp = make([]int32, len(t))
				if !rec.Call("sort", func() { suffix.Sort(t, sa); suffix.LCP(t, sa, nil, lcp) }) {
					return
				}
			}
			sainv := make([]int32, len(sa))
			for i, x := range sa {
				if x >= 0 && int(x) < len(sa) {
					sainv[x] = int32(i)
				}
			}
			e := Event{"op": name, "t": B(orig), "sa": i32(sa), "lcp": i32(lcp), "sainv": i32(sainv),
				"minlen": minLen, "maxlen": maxLen, "src": str(op["src"]), "permute": boolean(op["permute"])}
			cbs := []any{}
			work := append([]int32{}, sa...)
			lcpw := append([]int32{}, lcp...)
			if boolean(op["shared"]) {
				// the caller carved both tables out of one array: the LCP
				// table has spare capacity, and what lies behind it is the
				// suffix array
				buf := make([]int32, 2*len(sa))
				lcpw, work = buf[:len(sa)], buf[len(sa):]
				copy(lcpw, lcp)
				copy(work, sa)
				e["shared"] = true
			}
			permute := boolean(op["permute"])
			nested := boolean(op["nested"])
			if nested {
				e["nested"] = true
			}
			// a consumer may itself need the groups of another text while it
			// handles a segment (nested call on the same goroutine)
			nsa := naiveSA([]byte("abracadabra-abracadabra"))
			nlcp := naiveLCP([]byte("abracadabra-abracadabra"), nsa)
			ok := rec.Call(name, func() {
				suffix.Segments(work, lcpw, minLen, maxLen, func(m int, seg []int32) {
					cbs = append(cbs, []any{m, i32(seg)})
					if nested {
						suffix.Segments(append([]int32{}, nsa...), nlcp, 1, 6, func(int, []int32) {})
					}
					if permute {
						// the consumer may reorder a segment (OSAP sorts it)
						sort.Slice(seg, func(a, b int) bool { return seg[a] < seg[b] })
					}
				})
			})
			if !ok {
				return
			}
			e["cbs"] = cbs
			// Segments may permute sa inside the segments it reports; the
			// LCP table belongs to the caller
			e["lcp_after"] = i32(lcpw)
			rec.Emit(e)
		default:
			panic("lzdrive: suffix: unknown op " + name)
		}
	}
}

// ---------------------------------------------------------------------
// generator
// ---------------------------------------------------------------------

func genSuffixText(r *rand.Rand, maxN int) ([]byte, string) {
	n := 0
	switch r.Intn(10) {
	case 0, 1, 2, 3:
		n = r.Intn(49)
	case 4, 5, 6:
		n = 49 + r.Intn(300)
	case 7, 8:
		n = 300 + r.Intn(900)
	default:
		if maxN > 1000 {
			n = 1000 + r.Intn(maxN-999)
		} else {
			n = r.Intn(maxN + 1)
		}
	}
	if n > maxN {
		n = maxN
	}
	switch r.Intn(9) {
	case 8:
		return tandemBudgetText(r), "tandembudget"
	case 0: // alternating runs of two letters, random run lengths (substring heap sort)
		out := make([]byte, 0, n)
		c := byte('a')
		for len(out) < n {
			l := 1 + r.Intn(20)
			for j := 0; j < l && len(out) < n; j++ {
				out = append(out, c)
			}
			c ^= 3
		}
		return out, "tworuns20"
	case 1: // periodic prefix broken once, then resumed
		p := 1 + r.Intn(5)
		pat := make([]byte, p)
		for i := range pat {
			pat[i] = byte('a' + r.Intn(3))
		}
		out := make([]byte, n)
		for i := range out {
			out[i] = pat[i%p]
		}
		for k := 0; k < 1+r.Intn(2) && n > 0; k++ {
			out[r.Intn(n)] = byte('a' + r.Intn(3))
		}
		return out, "brokenperiodic"
	case 2: // all 256 byte values
		out := make([]byte, n)
		for i := range out {
			out[i] = byte(r.Intn(256))
		}
		if n >= 256 && r.Intn(2) == 0 {
			for i := 0; i < 256; i++ {
				out[i] = byte(255 - i)
			}
		}
		return out, "bytes256"
	case 3: // repeated block
		bl := 1 + r.Intn(40)
		blk := make([]byte, bl)
		for i := range blk {
			blk[i] = byte(r.Intn(4))
		}
		out := make([]byte, n)
		for i := range out {
			out[i] = blk[i%bl]
		}
		return out, "repeatblock"
	default:
		// a long single run makes the SubSeq form of the LCP check quadratic
		// in TLC: keep the generic classes, they are capped by the caller
		d, class := genInput(r, n)
		return d, class
	}
}

// tandemBudgetText: exhaust the budget of the rank sort (an increasing chain
// of distinct B* substrings, twice: quadratic work), then one tandem-repeat
// group P^k whose members are followed by the repeat itself, by a smaller
// substring (Z) and by a larger one (Y): trIntroSort then finishes the group
// with trPartialCopy instead of trCopy. The structure was found by a seeding
// agent; about 2 % of this family made the pinned Sort loop for ever.
func tandemBudgetText(r *rand.Rand) []byte {
	var out []byte
	chain := 14 + r.Intn(12)
	for rep := 0; rep < 2; rep++ {
		for j := 0; j < chain; j++ {
			out = append(out, 1, byte(2+j))
		}
		out = append(out, 1, byte(255-rep))
	}
	P := []byte{100, 101}
	Y := []byte{120, 121, 120, 122, 120, 123, 120}
	Z := []byte{50, 51, 50}
	a, b, c := 1+r.Intn(6), 1+r.Intn(6), 1+r.Intn(6)
	rep := func(k int) {
		for i := 0; i < k; i++ {
			out = append(out, P...)
		}
	}
	blocks := []func(){
		func() { rep(a); out = append(out, Y...); out = append(out, 255) },
		func() { rep(a); out = append(out, Y...); out = append(out, 254) },
		func() { rep(b); out = append(out, Z...); out = append(out, 240) },
		func() { rep(c); out = append(out, Z...); out = append(out, 239) },
	}
	order := []int{0, 1, 2, 3}
	if r.Intn(3) == 0 {
		order = r.Perm(4)
	}
	for _, k := range order {
		blocks[k]()
	}
	return out
}

// tandemChainText: k copies of an increasing chain of distinct B* substrings
// (uses up the rank-sort budget), then k2 copies of a tandem repeat P^reps
// followed by a second chain: a tandem-repeat group with more than
// trSizeThreshold members whose non-repeating members are sorted when the
// budget is gone (trIntroSort marks the group partial, trPartialCopy).
func tandemChainText(r *rand.Rand) []byte {
	var out []byte
	j, k := 15+r.Intn(11), 3+r.Intn(6)
	j2, k2, reps := 3+r.Intn(13), 7+r.Intn(6), 4+r.Intn(3)
	for i := 0; i < k; i++ {
		for x := 0; x < j; x++ {
			out = append(out, 1, byte(2+x))
		}
		out = append(out, byte(255-i))
	}
	for i := 0; i < k2; i++ {
		for x := 0; x < reps; x++ {
			out = append(out, 100, 101)
		}
		for x := 0; x < j2; x++ {
			out = append(out, 120, byte(121+x))
		}
		out = append(out, byte(255-i))
	}
	return out
}

// syllableText: texts over two-byte syllables ('a', 'b'+s): g copies of an
// increasing chain of k syllables (groups are visited in text order and each
// must look far ahead: the rank sort runs out of its budget and needs a
// second pass with doubled depth), then r copies of a two-syllable tandem
// repeat, a terminator syllable and x further distinct syllables. The W^g
// prefix alone (r = 0) is the smallest known family that exhausts the budget.
func syllableText(r *rand.Rand) []byte {
	k, g := 8+r.Intn(10), 2+r.Intn(5)
	rep, x := 0, 0
	if r.Intn(2) == 0 {
		rep, x = 3+r.Intn(5), r.Intn(4)
	}
	if r.Intn(2) == 0 {
		// long chains, many copies, a long tandem repeat: the budget is gone
		// in the first pass and the tandem group is finished in the second
		k, g, rep, x = 13+r.Intn(8), 6+r.Intn(3), 5+r.Intn(5), r.Intn(5)
	}
	var seq []int
	for j := 0; j < g; j++ {
		for i := 0; i < k; i++ {
			seq = append(seq, i)
		}
	}
	for j := 0; j < rep; j++ {
		seq = append(seq, 151, 150)
	}
	if rep > 0 {
		seq = append(seq, 152)
	}
	for j := 0; j < x; j++ {
		seq = append(seq, 100+j)
	}
	t := make([]byte, 0, 2*len(seq))
	for _, s := range seq {
		t = append(t, 'a', byte('b'+s))
	}
	return t
}

func genSuffix(seed int64, n int, tier string) []Script {
	r := rand.New(rand.NewSource(seed))
	maxN := 1500
	if tier == "thorough" {
		maxN = 4096
	}
	var out []Script
	per := 10
	for i := 0; i < n; i += per {
		var ops []map[string]any
		for j := 0; j < per; j++ {
			t, class := genSuffixText(r, maxN)
			// single runs and near-runs: the LCP table sums to n^2/2
			if (class == "run" || class == "runs" || class == "zerosparse" || class == "repeatblock" || class == "brokenperiodic" || class == "periodic") && len(t) > 700 {
				t = t[:700]
			}
			ops = append(ops, map[string]any{"op": "suffix", "t": B2(t), "class": class})
			if len(t) <= 300 {
				ops = append(ops, map[string]any{"op": "suffixcfg", "t": B2(t), "st": pickInt(r, 1, 2, 3), "trst": pickInt(r, 1, 2, 3)})
			}
			// texts up to 200 bytes also go through the stage hook (compared
			// with DivSufSort.tla / TrSortRounds.tla); longer ones cut and
			// reduced to two letters, so that many B* suffixes share a bucket
			if len(t) >= 3 {
				u := append([]byte{}, t...)
				if len(u) > 200 {
					u = u[:60+r.Intn(140)]
					for k := range u {
						u[k] &= 1
					}
				}
				sop := map[string]any{"op": "suffixstages", "t": B2(u)}
				if r.Intn(2) == 0 {
					sop["st"], sop["trst"] = pickInt(r, 1, 2, 3), pickInt(r, 1, 2, 3)
				}
				ops = append(ops, sop)
			}
		}
		out = append(out, Script{Tid: "suffix-" + itoa(seed) + "-" + itoa(int64(i)), Comp: "suffix",
			Cfg: map[string]any{}, Ops: ops, Tags: []string{"go", "sort"}})
	}
	// many random texts over two to four letters, 100..1500 bytes: groups of
	// more than eight tied B* suffixes with every size relation of the
	// three partition parts (the push orders of the rank sort), tandem
	// repeats among them. Sort only (the LCP forms are covered above).
	for i := 0; i < 2*n; i += 10 {
		var ops []map[string]any
		for j := 0; j < 10; j++ {
			k := 2 + r.Intn(3)
			t := make([]byte, 100+r.Intn(1400))
			for x := range t {
				t[x] = byte('a' + r.Intn(k))
			}
			ops = append(ops, map[string]any{"op": "suffix", "t": B2(t), "class": "kary", "nolcp": true})
		}
		out = append(out, Script{Tid: "suffix-kary-" + itoa(seed) + "-" + itoa(int64(i)), Comp: "suffix",
			Cfg: map[string]any{}, Ops: ops, Tags: []string{"go", "sort", "kary"}})
	}
	// the budget / tandem-repeat family on its own (short texts, many of them)
	for i := 0; i < 2*n; i += 10 {
		var ops []map[string]any
		for j := 0; j < 10; j++ {
			if j%3 == 0 {
				tb := tandemBudgetText(r)
				ops = append(ops, map[string]any{"op": "suffix", "t": B2(tb), "class": "tandembudget"})
				if len(tb) <= 200 {
					ops = append(ops, map[string]any{"op": "suffixstages", "t": B2(tb)})
				}
			} else if j%3 == 1 {
				ops = append(ops, map[string]any{"op": "suffix", "t": B2(syllableText(r)), "class": "syllables"})
			} else {
				tc := tandemChainText(r)
				ops = append(ops, map[string]any{"op": "suffix", "t": B2(tc), "class": "tandemchain"})
				if len(tc) <= 200 {
					ops = append(ops, map[string]any{"op": "suffixstages", "t": B2(tc)})
				}
			}
		}
		out = append(out, Script{Tid: "suffix-tb-" + itoa(seed) + "-" + itoa(int64(i)), Comp: "suffix",
			Cfg: map[string]any{}, Ops: ops, Tags: []string{"go", "sort", "tandembudget"}})
	}
	return out
}

// genSegments: Segments on longer texts, LCP profiles that fall and rise
// again, every (minLen, maxLen) relation to the LCP values.
func genSegments(seed int64, n int, tier string) []Script {
	r := rand.New(rand.NewSource(seed))
	var out []Script
	per := 10
	for i := 0; i < n; i += per {
		var ops []map[string]any
		for j := 0; j < per; j++ {
			var t []byte
			class := ""
			switch r.Intn(4) {
			case 0: // nested prefixes: deep stacks, several closes at once
				t, class = nestedPrefixText(r, 20+r.Intn(400)), "nested"
			case 1:
				t, class = genSuffixText(r, 600)
			default:
				t, class = genInput(r, r.Intn(300))
			}
			if len(t) > 600 {
				t = t[:600]
			}
			maxL := pickInt(r, 0, 1, 2, 3, 4, 8, 16, 273, 1<<20, 1<<31-1, 1<<31-2)
			minL := pickInt(r, 0, 0, 1, 2, 3, maxL, maxL+1)
			if minL > maxL && r.Intn(3) != 0 {
				minL = maxL
			}
			if minL > 1<<31-1 {
				// Segments checks its arguments against the int32 range of
				// the LCP table and panics deliberately beyond it; such a
				// pair (minLen > maxLen as well) is outside C10
				minL = 1<<31 - 1
			}
			ops = append(ops, map[string]any{"op": "segments", "t": B2(t), "minlen": minL, "maxlen": maxL,
				"src": pickStr(r, "lib", "naive"), "permute": r.Intn(2) == 0, "class": class,
				"shared": r.Intn(4) == 0, "nested": r.Intn(4) == 0})
		}
		out = append(out, Script{Tid: "segments-" + itoa(seed) + "-" + itoa(int64(i)), Comp: "suffix",
			Cfg: map[string]any{}, Ops: ops, Tags: []string{"go", "segments"}})
	}
	return out
}

func nestedPrefixText(r *rand.Rand, n int) []byte {
	var out []byte
	for len(out) < n {
		L := 4 + r.Intn(8)
		w := make([]byte, L)
		for i := range w {
			w[i] = byte('a' + r.Intn(3))
		}
		order := r.Perm(L - 1)
		for _, k := range order {
			out = append(out, w[:k+2]...)
			out = append(out, byte('0'+r.Intn(10)))
		}
	}
	return out[:n]
}

func init() {
	components["suffix"] = runSuffix
	generators["suffix"] = genSuffix
	generators["segments"] = genSegments
}
