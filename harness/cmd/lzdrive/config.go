package main

import (
	"encoding/json"
	"math/rand"
	"reflect"
	"sort"
	"strconv"

	"github.com/ulikunitz/lz"
)

// Component "config": the life cycle of one parser configuration value
// (JSON round trip, Clone, SetDefaults, Verify, NewParser, reported
// configuration) recorded as one "cfg" event, and ParseJSON on arbitrary
// documents recorded as "jsondoc" events. Field values are logged as decimal
// strings (TLC integers are 32 bit; the relations of C20/C16 only need
// equality and the zero test).

var cfgKinds = []string{"HP", "BHP", "DHP", "BDHP", "BUP", "GSAP", "OSAP"}

func strFields(cfg lz.ParserConfig) map[string]any {
	out := map[string]any{}
	v := reflect.Indirect(reflect.ValueOf(cfg))
	t := v.Type()
	for i := 0; i < v.NumField(); i++ {
		switch v.Field(i).Kind() {
		case reflect.Int:
			out[t.Field(i).Name] = strconv.FormatInt(v.Field(i).Int(), 10)
		case reflect.String:
			out[t.Field(i).Name] = "s:" + v.Field(i).String()
		}
	}
	return out
}

func bufFields(bc lz.BufConfig) map[string]any {
	return map[string]any{
		"ShrinkSize": strconv.Itoa(bc.ShrinkSize), "BufferSize": strconv.Itoa(bc.BufferSize),
		"WindowSize": strconv.Itoa(bc.WindowSize), "BlockSize": strconv.Itoa(bc.BlockSize),
	}
}

func kindOf(cfg lz.ParserConfig) string {
	switch cfg.(type) {
	case *lz.HPConfig:
		return "HP"
	case *lz.BHPConfig:
		return "BHP"
	case *lz.DHPConfig:
		return "DHP"
	case *lz.BDHPConfig:
		return "BDHP"
	case *lz.BUPConfig:
		return "BUP"
	case *lz.GSAPConfig:
		return "GSAP"
	case *lz.OSAPConfig:
		return "OSAP"
	}
	return "?" + reflect.TypeOf(cfg).String()
}

func errStr(err error) string {
	if err == nil {
		return ""
	}
	return "err"
}

// mutate changes every field of a configuration (to observe independence).
func mutate(cfg lz.ParserConfig) {
	v := reflect.Indirect(reflect.ValueOf(cfg))
	for i := 0; i < v.NumField(); i++ {
		switch v.Field(i).Kind() {
		case reflect.Int:
			v.Field(i).SetInt(v.Field(i).Int() + 1)
		case reflect.String:
			v.Field(i).SetString(v.Field(i).String() + "x")
		}
	}
}

// memSafe tells whether creating a parser from the defaults-completed
// configuration stays within the memory budget of the harness.
func memSafe(d map[string]any) bool {
	get := func(k string) int64 {
		s, ok := d[k].(string)
		if !ok {
			return 0
		}
		i, _ := strconv.ParseInt(s, 10, 64)
		return i
	}
	for _, k := range []string{"HashBits", "HashBits1", "HashBits2"} {
		if get(k) > 20 {
			return false
		}
	}
	if b := get("BucketSize"); b > 0 && get("HashBits") > 14 {
		return false
	}
	return true
}

func runConfig(s *Script, rec *Rec) {
	rec.Emit(Event{"op": "begin", "tid": s.Tid, "comp": "config"})
	defer rec.Emit(Event{"op": "end"})
	for _, op := range s.Ops {
		switch str(op["op"]) {
		case "cfg":
			if !doCfg(op, rec) {
				return
			}
		case "jsondoc":
			if !doJSONDoc(op, rec) {
				return
			}
		default:
			panic("lzdrive: config: unknown op " + str(op["op"]))
		}
	}
}

func doCfg(op map[string]any, rec *Rec) bool {
	kind := str(op["kind"])
	fields, _ := op["f"].(map[string]any)
	e := Event{"op": "cfg", "kind": kind}
	var c lz.ParserConfig
	ok := rec.Call("cfg", func() {
		c = newConfig(kind, fields)
		e["f"] = strFields(c)
		// JSON round trip
		doc, err := json.Marshal(c)
		e["marshal_err"] = errStr(err)
		if err == nil {
			pc, perr := lz.ParseJSON(doc)
			e["parse_err"] = errStr(perr)
			if perr == nil && pc != nil {
				e["parsed_kind"] = kindOf(pc)
				e["parsed"] = strFields(pc)
			} else {
				e["parsed_kind"], e["parsed"] = "", map[string]any{}
			}
			// the same document into every configuration type
			into := map[string]any{}
			for _, k := range cfgKinds {
				t := newConfig(k, nil)
				uerr := json.Unmarshal(doc, t)
				into[k] = errStr(uerr)
				if k == kind && uerr == nil {
					e["into_self"] = strFields(t)
				}
			}
			e["into"] = into
		}
		// Clone: equal and independent
		cl := c.Clone()
		e["clone_kind"] = kindOf(cl)
		e["clone"] = strFields(cl)
		mutate(cl)
		e["orig_after_clone_mutation"] = strFields(c)
		cl2 := c.Clone()
		mutate(c)
		e["clone_after_orig_mutation"] = strFields(cl2)
		c = cl2
		// defaults
		d1 := c.Clone()
		d1.SetDefaults()
		e["d1"] = strFields(d1)
		d2 := d1.Clone()
		d2.SetDefaults()
		e["d2"] = strFields(d2)
		e["d1buf"] = bufFields(d1.BufConfig())
		e["verify_err"] = errStr(d1.Verify())
		e["verify_raw_err"] = errStr(c.Clone().Verify())
		// NewParser on the configuration as given
		if !memSafe(e["d1"].(map[string]any)) {
			e["new"] = "skipped"
			return
		}
		p, nerr := c.NewParser()
		e["new"] = "done"
		e["new_err"] = errStr(nerr)
		e["orig_after_new"] = strFields(c)
		if nerr == nil && p != nil {
			e["reported_kind"] = kindOf(p.ParserConfig())
			e["reported"] = strFields(p.ParserConfig())
			e["bufcfg"] = bufFields(p.BufferConfig())
		}
	})
	if !ok {
		return false
	}
	rec.Emit(e)
	return true
}

func doJSONDoc(op map[string]any, rec *Rec) bool {
	doc := str(op["doc"])
	e := Event{"op": "jsondoc", "doc": doc}
	// what the document says about itself (plain encoding/json)
	var probe struct{ Type *string }
	perr := json.Unmarshal([]byte(doc), &probe)
	e["valid_json"] = perr == nil
	e["doc_type"] = ""
	e["has_type"] = false
	if perr == nil && probe.Type != nil {
		e["doc_type"] = *probe.Type
		e["has_type"] = true
	}
	ok := rec.Call("jsondoc", func() {
		pc, err := lz.ParseJSON([]byte(doc))
		e["err"] = errStr(err)
		e["result_kind"] = ""
		if err == nil && pc != nil {
			e["result_kind"] = kindOf(pc)
		}
		into := map[string]any{}
		for _, k := range cfgKinds {
			t := newConfig(k, nil)
			into[k] = errStr(json.Unmarshal([]byte(doc), t))
		}
		e["into"] = into
	})
	if !ok {
		return false
	}
	rec.Emit(e)
	return true
}

// ---------------------------------------------------------------------
// generators
// ---------------------------------------------------------------------

var kindFields = map[string][]string{
	"HP":   {"InputLen", "HashBits"},
	"BHP":  {"InputLen", "HashBits"},
	"DHP":  {"InputLen1", "HashBits1", "InputLen2", "HashBits2"},
	"BDHP": {"InputLen1", "HashBits1", "InputLen2", "HashBits2"},
	"BUP":  {"InputLen", "HashBits", "BucketSize"},
	"GSAP": {"MinMatchLen"},
	"OSAP": {"MinMatchLen", "MaxMatchLen"},
}
var bufFieldNames = []string{"ShrinkSize", "BufferSize", "WindowSize", "BlockSize"}

var gridValues = []int64{-5, -1, 0, 0, 0, 1, 2, 3, 4, 7, 8, 9, 10, 16, 17, 23, 24, 25, 64, 128, 129, 273, 1000,
	32 << 10, 64 << 10, 1 << 20, 8 << 20, 1<<31 - 1, 1 << 31, 1<<32 - 8, 1<<32 - 7, 1 << 40, 1<<62 + 5}

func genConfig(seed int64, n int, tier string) []Script {
	r := rand.New(rand.NewSource(seed))
	var out []Script
	per := 25
	for i := 0; i < n; i += per {
		var ops []map[string]any
		for j := 0; j < per; j++ {
			kind := cfgKinds[(i+j)%len(cfgKinds)]
			f := map[string]any{}
			names := append(append([]string{}, bufFieldNames...), kindFields[kind]...)
			sort.Strings(names)
			for _, nm := range names {
				switch r.Intn(4) {
				case 0: // default
				case 1:
					f[nm] = gridValues[r.Intn(len(gridValues))]
				default: // plausible small value
					f[nm] = int64(r.Intn(12))
				}
			}
			if kind == "OSAP" {
				switch r.Intn(4) {
				case 0:
					f["Cost"] = "XZCost"
				case 1:
					f["Cost"] = pickStr(r, "xzcost", "ZCost", " ", "XZCost ", "é")
				}
			}
			ops = append(ops, map[string]any{"op": "cfg", "kind": kind, "f": f})
		}
		out = append(out, Script{Tid: "config-" + itoa(seed) + "-" + itoa(int64(i)), Comp: "config",
			Cfg: map[string]any{}, Ops: ops, Tags: []string{"go", "cfg"}})
	}
	// JSON documents for the rejection clause
	var docs []string
	types := []string{"HP", "BHP", "DHP", "BDHP", "BUP", "GSAP", "OSAP", "hp", "Hp", "HP ", " HP", "", "LZ4", "OSAP2", "GSAPP", "null", "HP\u0000"}
	for _, t := range types {
		q, _ := json.Marshal(t)
		docs = append(docs, `{"Type":`+string(q)+`}`, `{"Type":`+string(q)+`,"BufferSize":64}`,
			`{"type":`+string(q)+`}`, `{"Type":`+string(q)+`,"Unknown":1}`, `{"Type":`+string(q)+`,"InputLen":"3"}`,
			`{"Type":`+string(q)+`,"Type":"HP"}`, `{"Type":"HP","Type":`+string(q)+`}`)
	}
	docs = append(docs, ``, `{}`, `[]`, `null`, `1`, `"HP"`, `{"Type":1}`, `{"Type":null}`, `{"Type":["HP"]}`, `{"Type":{"a":"HP"}}`,
		`{"Type":"HP"`, `{"Type":"HP"}}`, `{"Type":"HP","BufferSize":1e3}`, `{"Type":"HP","BufferSize":1.5}`,
		`{"Type":"HP","BufferSize":99999999999999999999}`, `{"Type":"BUP","BucketSize":-1}`, `{"TYPE":"HP"}`,
		`{"Type":"OSAP","Cost":5}`, `{"Type":"OSAP","Cost":"nope"}`, ` {"Type" : "GSAP" } `, `{"Type":"GSAP","MinMatchLen":null}`)
	var ops []map[string]any
	for _, d := range docs {
		ops = append(ops, map[string]any{"op": "jsondoc", "doc": d})
	}
	// random mutations of a valid document
	base := `{"Type":"BUP","ShrinkSize":32768,"BufferSize":8388608,"WindowSize":8388608,"BlockSize":131072,"InputLen":3,"HashBits":12,"BucketSize":10}`
	for k := 0; k < 60; k++ {
		b := []byte(base)
		for m := 0; m < 1+r.Intn(3); m++ {
			switch r.Intn(3) {
			case 0:
				b[r.Intn(len(b))] = byte(32 + r.Intn(95))
			case 1:
				p := r.Intn(len(b))
				b = append(b[:p], b[p+1:]...)
			default:
				p := r.Intn(len(b))
				b = append(b[:p], append([]byte{byte(32 + r.Intn(95))}, b[p:]...)...)
			}
		}
		ops = append(ops, map[string]any{"op": "jsondoc", "doc": string(b)})
	}
	out = append(out, Script{Tid: "config-json-" + itoa(seed), Comp: "config", Cfg: map[string]any{}, Ops: ops,
		Tags: []string{"go", "jsondoc"}})
	return out
}

func pickStr(r *rand.Rand, xs ...string) string { return xs[r.Intn(len(xs))] }

func init() {
	components["config"] = runConfig
	generators["config"] = genConfig
}
