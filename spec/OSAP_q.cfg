SPECIFICATION Spec
CONSTANTS
  Alpha = {0, 1}
  MaxN = 6
  Blks = {3, 8}
  MinMs = {2}
  MaxMs = {3, 8}
  Wnds = {2, 8}
  Variant = "code"
  EmitOps = TRUE
  EmitEvery = 1
INVARIANT StateInv
PROPERTY Refines
ACTION_CONSTRAINT EmitAC
VIEW View
CHECK_DEADLOCK FALSE
