SPECIFICATION Spec
CONSTANTS
  DefWindow = 8388608
  SmallBuf = 65536
  DefShrink = 32768
  DefBlock = 131072
  MaxSize = 1073741824
  KindSet = {"HP", "BHP", "DHP", "BDHP", "BUP", "GSAP", "OSAP"}
  Grid = "quick"
  EmitOps = TRUE
INVARIANT Inv
CHECK_DEADLOCK FALSE
