---------------------------- MODULE TwoRun_Trace ----------------------------
(***************************************************************************)
(* Trace validation of recorded multi-run executions against TwoRun.tla    *)
(* (monitor style, see DecoderBuf_Trace).  The "end" event of a trace is   *)
(* judged as well (the last run must be complete).                         *)
(***************************************************************************)
EXTENDS TwoRun, Json, IOUtils

Trace == ndJsonDeserialize(IOEnv.VERIF_TRACE)

VARIABLES l, ts, bad, tid
vars == <<l, ts, bad, tid>>

TraceInit ==
  /\ l = 1
  /\ ts = TInit("det")
  /\ bad = 0
  /\ tid = ""
  /\ TLCSet(1, <<>>)

TraceNext ==
  /\ l <= Len(Trace)
  /\ l' = l + 1
  /\ LET e == Trace[l] IN
     IF e.op = "begin"
     THEN /\ tid' = e.tid
          /\ ts' = TInit(e.mode)
          /\ bad' = 0
     ELSE IF bad # 0
     THEN UNCHANGED <<tid, ts, bad>>
     ELSE LET why == TWhy(ts, e) IN
          IF why = {}
          THEN /\ ts' = TEff(ts, e)
               /\ UNCHANGED <<tid, bad>>
          ELSE /\ bad' = l
               /\ UNCHANGED <<tid, ts>>
               /\ TLCSet(1, Append(TLCGet(1), [tid |-> tid, line |-> l, why |-> why]))

TraceSpec == TraceInit /\ [][TraceNext]_vars

Post ==
  /\ PrintT(<<"VERIF_BAD", ToJson(TLCGet(1))>>)
  /\ PrintT(<<"VERIF_LINES", TLCGet("stats").diameter - 1, Len(Trace)>>)
=============================================================================
