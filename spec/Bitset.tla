------------------------------- MODULE Bitset -------------------------------
(***************************************************************************)
(* Implementation-shaped model of lz's bitset (bitset.go), the search set  *)
(* of the greedy suffix array parser: a slice of 64-bit words `a` with the *)
(* number `off` of zero words in front of it.                              *)
(*                                                                         *)
(* Model state                                                             *)
(*   mem   the backing array: word index (1..cap) -> set of bit numbers    *)
(*         (0..63); words behind alen keep whatever an earlier use left    *)
(*         there (clear() only sets the length to 0)                       *)
(*   alen  len(a)        cap  cap(a)        off  b.off                     *)
(*   S     ghost: the set of integers the structure is meant to hold       *)
(*                                                                         *)
(* Actions: insert(i) (with support(i, i): grow upwards, grow downwards by *)
(* moving the words inside the spare capacity, reallocate), delete(i),     *)
(* clear.  Queries memberBefore / memberAfter are transcribed as operators *)
(* and compared with the definition on S in every state.                   *)
(*                                                                         *)
(* Variant "zerofirst" is the defect that was repaired (support zeroed the *)
(* low words before it moved the old ones up): TLC refutes it.             *)
(*                                                                         *)
(* Positions are drawn from a small set P around the word boundaries, so   *)
(* that every branch of support is reached with few states; the same       *)
(* histories are replayed into the real bitset through the verif-tagged    *)
(* VerifBitset hook and the recorded members / neighbours are judged by    *)
(* the envelope rules BRules (set semantics).                              *)
(***************************************************************************)
EXTENDS BitsetDefs, Json

CONSTANTS P, MaxOps, Variant, EmitOps

VARIABLES mem, alen, cap, off, S, nops, ops
vars == <<mem, alen, cap, off, S, nops, ops>>
View == <<mem, alen, cap, off, S>>

MaxCap == 8
WordOf(i) == i \div 64
BitOf(i) == i % 64

Init ==
  /\ mem = [k \in 1..MaxCap |-> {}] /\ alen = 0 /\ cap = 0 /\ off = 0 /\ S = {}
  /\ nops = 0 /\ ops = <<[op |-> "begin"]>>

(* the integers represented by the words in use *)
Members(m, n, o) == UNION { { (o + k - 1) * 64 + b : b \in m[k] } : k \in 1..n }

(* ---- support(min, max) ---- result: [mem, alen, cap, off] *)
Support(mn, mx) ==
  LET kmin == WordOf(mn)
      kmax == WordOf(mx)
  IN IF off <= kmin /\ kmax < off + alen THEN [mem |-> mem, alen |-> alen, cap |-> cap, off |-> off]
     ELSE LET yoff == IF alen = 0 THEN kmin ELSE IF kmin < off THEN kmin ELSE off
              d    == IF alen # 0 /\ kmin < off THEN off - kmin ELSE 0
              n0   == kmax + 1 - yoff
              n    == IF n0 < d + alen THEN d + alen ELSE n0
          IN IF n > cap
             THEN \* reallocate: zeroed array of n words, old words copied to d..
                  [mem |-> [k \in 1..MaxCap |-> IF k > d /\ k <= d + alen THEN mem[k - d] ELSE {}],
                   alen |-> n, cap |-> n, off |-> yoff]
             ELSE \* inside the spare capacity: move up by d, zero the rest
                  LET moved == [k \in 1..MaxCap |->
                                  IF k <= d THEN {}
                                  ELSE IF k <= d + alen
                                       THEN (IF Variant = "zerofirst" /\ k - d <= d THEN {} ELSE mem[k - d])
                                  ELSE IF k <= n THEN {} ELSE mem[k]]
                  IN [mem |-> moved, alen |-> n, cap |-> cap, off |-> yoff]

Insert(i) ==
  LET y == Support(i, i)
      k == WordOf(i) - y.off + 1
  IN /\ y.cap <= MaxCap
     /\ mem' = [y.mem EXCEPT ![k] = @ \cup {BitOf(i)}]
     /\ alen' = y.alen /\ cap' = y.cap /\ off' = y.off
     /\ S' = S \cup {i}

Delete(i) ==
  LET k == WordOf(i) - off + 1 IN
  /\ mem' = IF k \in 1..alen THEN [mem EXCEPT ![k] = @ \ {BitOf(i)}] ELSE mem
  /\ S' = S \ {i}
  /\ UNCHANGED <<alen, cap, off>>

Clear == alen' = 0 /\ off' = 0 /\ S' = {} /\ UNCHANGED <<mem, cap>>

Step(call) == nops < MaxOps /\ nops' = nops + 1 /\ ops' = IF EmitOps THEN Append(ops, call) ELSE ops

Next ==
  \/ \E i \in P : Insert(i) /\ Step([op |-> "insert", i |-> i])
  \/ \E i \in P : i \in S /\ Delete(i) /\ Step([op |-> "delete", i |-> i])
  \/ (S # {} /\ Clear /\ Step([op |-> "clear"]))
Spec == Init /\ [][Next]_vars

(* ---- queries, transcribed ---- *)
MaxBitBelow(w, lim) == LET c == { b \in w : b < lim } IN IF c = {} THEN -1 ELSE CHOOSE b \in c : \A x \in c : x <= b
MinBitFrom(w, lo)  == LET c == { b \in w : b >= lo } IN IF c = {} THEN 64 ELSE CHOOSE b \in c : \A x \in c : x >= b

RECURSIVE BeforeLoop(_, _)
BeforeLoop(k, j) ==            \* k: 0-based word index, j: bit found in that word or -1
  IF j >= 0 THEN (off + k) * 64 + j
  ELSE IF k - 1 < 0 THEN -1
  ELSE BeforeLoop(k - 1, MaxBitBelow(mem[k], 64))      \* word k-1 is mem[k] (1-based)
MemberBefore(i) ==
  LET k == WordOf(i) - off IN
  IF k < 0 THEN -1
  ELSE IF k < alen THEN BeforeLoop(k, MaxBitBelow(mem[k + 1], BitOf(i)))
  ELSE BeforeLoop(alen, -1)

RECURSIVE AfterLoop(_, _)
AfterLoop(k, j) ==
  IF j < 64 THEN (off + k) * 64 + j
  ELSE IF k + 1 >= alen THEN -1
  ELSE AfterLoop(k + 1, MinBitFrom(mem[k + 2], 0))
MemberAfter(i0) ==
  LET i == i0 + 1
      k == WordOf(i) - off
  IN IF k >= alen THEN -1
     ELSE IF k >= 0 THEN AfterLoop(k, MinBitFrom(mem[k + 1], BitOf(i)))
     ELSE AfterLoop(-1, 64)

Probes == P \cup { i + 1 : i \in P } \cup { i - 1 : i \in P \ {0} }

Represents == Members(mem, alen, off) = S
Neighbours == \A i \in Probes : MemberBefore(i) = DefBefore(S, i) /\ MemberAfter(i) = DefAfter(S, i)
Shape == alen <= cap /\ cap <= MaxCap /\ off >= 0
Inv == Represents /\ Neighbours /\ Shape

Emit == EmitOps => PrintT(<<"VERIF_OPS", ToJson(ops')>>)
=============================================================================
