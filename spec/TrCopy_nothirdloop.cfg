SPECIFICATION Spec
CONSTANTS
  MaxM = 7
  K = 3
  Variant = "nothirdloop"
  EmitOps = FALSE
INVARIANT Inv
CHECK_DEADLOCK FALSE
