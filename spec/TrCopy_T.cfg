SPECIFICATION Spec
CONSTANTS
  MaxM = 7
  K = 4
  Variant = "code"
  EmitOps = FALSE
INVARIANT Inv
CHECK_DEADLOCK FALSE
