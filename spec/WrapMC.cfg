SPECIFICATION Spec
CONSTANTS
  Bs = {1, 2, 3}
  Blks = {1, 2}
  MaxSrc = 5
  EmitOps = FALSE
  AllowFaults = TRUE
INVARIANTS Inv NoFull
PROPERTIES Refines Terminates
VIEW View
CHECK_DEADLOCK FALSE
