------------------------------ MODULE ConfigMC ------------------------------
(***************************************************************************)
(* Design-level check of the configuration defaults / verification model   *)
(* of Config.tla and generator of the boundary grid (C16, C20).  Every     *)
(* initial state is one configuration value (kind, c) with each field      *)
(* drawn from a small boundary set; there are no transitions.  TLC checks  *)
(* for every grid point:                                                   *)
(*   Idempotent   SetDefaults(SetDefaults(c)) = SetDefaults(c)             *)
(*   OnlyZero     SetDefaults changes only fields that are zero            *)
(*   Relied       an accepted configuration (Verify(SetDefaults(c)))       *)
(*                satisfies what the buffer and the parsers rely on        *)
(* and prints the grid point as a script operation together with the       *)
(* model's expectation (accept); a disagreement of the code with that      *)
(* expectation is DRIFT (the accepted ranges are not part of a property),  *)
(* not a violation.                                                        *)
(***************************************************************************)
EXTENDS Config, Json

CONSTANTS KindSet, Grid, EmitOps

(* boundary values per field (negative numbers cannot be written in a TLC  *)
(* configuration file, hence the grids live here); all of them are memory  *)
(* safe for the real code: HashBits <= 17, BufferSize <= 70                *)
T == Grid = "thorough"
VB   == IF T THEN {-1, 0, 1, 8, 70} ELSE {0, 1, 70}
VS   == IF T THEN {-1, 0, 1, 70, 71} ELSE {-1, 0, 70}
VW   == IF T THEN {-1, 0, 1, 9} ELSE {0, 9}
VBlk == IF T THEN {-1, 0, 1, 100} ELSE {0, 1}
VIL  == IF T THEN {0, 1, 2, 8, 9} ELSE {0, 2, 9}
VIL2 == IF T THEN {0, 2, 3, 9} ELSE {0, 3, 8}
VHB  == IF T THEN {-1, 0, 16, 17} ELSE {-1, 0, 17}
VBkt == IF T THEN {-1, 0, 1, 128, 129} ELSE {0, 1, 129}
VMin == IF T THEN {-1, 0, 1, 2, 10} ELSE {0, 1, 2, 10}
VMax == IF T THEN {-1, 0, 1, 2, 273} ELSE {0, 1, 2, 273}

VARIABLES kind, c
vars == <<kind, c>>

BufSet == [ShrinkSize : VS, BufferSize : VB, WindowSize : VW, BlockSize : VBlk]

Join(a, b) == [k \in DOMAIN a \cup DOMAIN b |-> IF k \in DOMAIN a THEN a[k] ELSE b[k]]

CfgSet(k) ==
  CASE k \in {"HP", "BHP"}   -> { Join(b, x) : b \in BufSet, x \in [InputLen : VIL, HashBits : VHB] }
    [] k \in {"DHP", "BDHP"} -> { Join(b, x) : b \in BufSet,
                                    x \in [InputLen1 : VIL, HashBits1 : VHB, InputLen2 : VIL2, HashBits2 : VHB] }
    [] k = "BUP"             -> { Join(b, x) : b \in BufSet, x \in [InputLen : VIL, HashBits : VHB, BucketSize : VBkt] }
    [] k = "GSAP"            -> { Join(b, x) : b \in BufSet, x \in [MinMatchLen : VMin] }
    [] k = "OSAP"            -> { Join(b, x) : b \in BufSet, x \in [MinMatchLen : VMin, MaxMatchLen : VMax] }

Init == kind \in KindSet /\ c \in CfgSet(kind)
Next == UNCHANGED vars
Spec == Init /\ [][Next]_vars

D == SetDefaults(kind, c)

Idempotent == SetDefaults(kind, D) = D
OnlyZero == \A k \in DOMAIN c : c[k] # 0 => D[k] = c[k]
Relied ==
  Verify(kind, D) =>
    /\ D.BufferSize >= 1 /\ D.BlockSize >= 1
    /\ D.ShrinkSize >= 0 /\ D.ShrinkSize <= D.BufferSize
    /\ D.WindowSize >= 0
    /\ (kind \in {"GSAP", "OSAP"} => D.MinMatchLen >= 2)
    /\ (kind = "OSAP" => D.MaxMatchLen >= D.MinMatchLen)
    /\ (kind \in {"HP", "BHP", "BUP"} => (D.InputLen \in 2..8 /\ D.HashBits <= 8 * D.InputLen))
    /\ (kind \in {"DHP", "BDHP"} => (D.InputLen1 \in 2..7 /\ D.InputLen2 \in 3..8))
(* The gap recorded as defect D2: an accepted configuration does not       *)
(* guarantee that Shrink can make room (ShrinkSize = BufferSize).          *)
ShrinkMakesRoom == Verify(kind, D) => D.ShrinkSize < D.BufferSize

Emit == EmitOps => PrintT(<<"VERIF_OPS", ToJson(<<[op |-> "cfg", kind |-> kind, f |-> c,
                                                   accept |-> Verify(kind, D)]>>)>>)
Inv == Idempotent /\ OnlyZero /\ Relied /\ Emit
=============================================================================
