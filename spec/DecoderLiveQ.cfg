SPECIFICATION Spec
CONSTANTS
  Ws = {0, 1, 2}
  Slack = {1, 2}
  Alpha = {0}
  MaxRef = 5
  MaxWrite = 4
  MaxM = 3
  MaxO = 1
  MaxSeqs = 1
  MaxLit = 1
  MaxFaults = 1
  Policy = "chunk"
  EmitOps = FALSE
  KeepLog = FALSE
PROPERTY Terminates
CHECK_DEADLOCK FALSE
