-------------------------------- MODULE DHP --------------------------------
(***************************************************************************)
(* Implementation-shaped model of the double hash parser DHP (dhp.go) with *)
(* its dictionary (hash.go, doubleHashDictionary): a short-gram table h1   *)
(* (InputLen1) and a long-gram table h2 (InputLen2 > InputLen1), both      *)
(* slot -> <<pos, val>> with <<0,0>> = empty.                              *)
(*                                                                         *)
(* Parse: main loop over the positions that still have InputLen2 bytes in  *)
(* the block: both tables are read and replaced; the long-gram entry is    *)
(* the candidate if its value matches, otherwise the short-gram entry if   *)
(* its value matches (a stale or colliding long-gram entry with an equal   *)
(* value therefore SHADOWS the short-gram candidate - the mechanism behind *)
(* the Reset defect D13); window test, extension clipped at the block end, *)
(* minimum length; covered positions are inserted into both tables up to   *)
(* e2 and into h1 up to e1.  Tail loop over the positions that only have   *)
(* InputLen1 bytes left: h1 only.  processSegment(a, b) inserts into both  *)
(* tables up to len - InputLen2 + 1 and into h1 up to len - InputLen1 + 1  *)
(* (masked values, as repaired by fix 1634655).  Shrink re-bases both      *)
(* tables, Reset clears both (fix 4944d76; Variant "noreset" keeps them:   *)
(* TLC then finds the shadowing scenario by itself).                       *)
(*                                                                         *)
(* Backward = TRUE gives BDHP (bdhp.go): a match found at i is extended to  *)
(* the left over the pending literals (lcs with the bytes in front of the   *)
(* source, C19.left_maximal), and - unlike DHP - the positions a match      *)
(* covers are inserted into the short-gram table only.  In the tail loop    *)
(* both parsers re-insert from the match SOURCE up to the end of the match  *)
(* (the loop variable is the source position), which the model follows.     *)
(*                                                                         *)
(* Slot function and DRIFT comparison as in HP.tla (InputLen1 = 2,         *)
(* InputLen2 = 3).  Checked: ParserSM envelope on every event, TableSound  *)
(* for both tables, ResetClean, and ResetEquiv: after a Reset the model    *)
(* state equals the state of a new parser given the same Reset.            *)
(***************************************************************************)
EXTENDS ParserSM, HPHash, Json

CONSTANTS Alpha, Scope, MaxInp, MaxWrite, Variant, EmitOps, EmitEvery,
          Backward   \* TRUE: the backward extending variant BDHP (bdhp.go), FALSE: DHP

Geoms ==
  IF Scope = "quick"
  THEN { [B |-> 6, S |-> 2, Wnd |-> wd, Blk |-> k, hb1 |-> 2, hb2 |-> 2] : wd \in {3, 8}, k \in {4, 8} }
  ELSE { [B |-> bb, S |-> sz, Wnd |-> wd, Blk |-> k, hb1 |-> h1, hb2 |-> h2] :
           bb \in {5, 7}, sz \in {1, 3}, wd \in {2, 8}, k \in {3, 4, 8}, h1 \in {1, 2}, h2 \in {1, 3} }

IL1 == 2
IL2 == 3

VARIABLES data, w, off, t1, t2, cf, st, ev, ops

vars == <<data, w, off, t1, t2, cf, st, ev, ops>>
View == <<data, w, off, t1, t2, cf, st.inp>>

RECURSIVE SeqsUpTo(_, _)
SeqsUpTo(S, n) == IF n = 0 THEN {<<>>} ELSE SeqsUpTo(S, n - 1) \cup [1..n -> S]
Bytes(n) == SeqsUpTo(Alpha, n)

Empty == [s \in 0..7 |-> <<0, 0>>]

Kind == IF Backward THEN "BDHP" ELSE "DHP"
Cfg(c) == [kind |-> Kind, B |-> c.B, S |-> c.S, Wnd |-> c.Wnd, Blk |-> c.Blk, il |-> IL1, mm |-> 0, xm |-> 0]

Init ==
  /\ cf \in Geoms
  /\ data = <<>> /\ w = 0 /\ off = 0 /\ t1 = Empty /\ t2 = Empty
  /\ st = PInit(Cfg(cf))
  /\ ev = [op |-> "begin"]
  /\ ops = <<[op |-> "begin", kind |-> Kind, BufferSize |-> cf.B, ShrinkSize |-> cf.S, WindowSize |-> cf.Wnd,
              BlockSize |-> cf.Blk, InputLen1 |-> IL1, HashBits1 |-> cf.hb1, InputLen2 |-> IL2, HashBits2 |-> cf.hb2]>>

G1(d, i) == d[i + 1] + 256 * d[i + 2]
G2(d, i) == d[i + 1] + 256 * d[i + 2] + 65536 * d[i + 3]
S1(x) == HashTab[<<IL1, cf.hb1>>][x]
S2(x) == HashTab[<<IL2, cf.hb2>>][x]

Ins1(tb, d, i) == [tb EXCEPT ![S1(G1(d, i))] = <<i, G1(d, i)>>]
Ins2(tb, d, i) == [tb EXCEPT ![S2(G2(d, i))] = <<i, G2(d, i)>>]

RECURSIVE InsBoth(_, _, _, _)     \* positions a..b-1 into both tables; returns <<t1, t2>>
InsBoth(tt, d, a, b) == IF a >= b THEN tt ELSE InsBoth(<<Ins1(tt[1], d, a), Ins2(tt[2], d, a)>>, d, a + 1, b)
RECURSIVE InsOne(_, _, _, _)
InsOne(tb, d, a, b) == IF a >= b THEN tb ELSE InsOne(Ins1(tb, d, a), d, a + 1, b)

(* processSegment(a, b) of doubleHashDictionary *)
ProcSeg(tt, d, a0, b0) ==
  LET a  == Max(a0, 0)
      b1 == Max(Min(b0, Len(d) - IL1 + 1), 0)
      b2 == Max(Min(b0, Len(d) - IL2 + 1), 0)
      r  == InsBoth(tt, d, a, b2)
  IN <<InsOne(r[1], d, Max(a, b2), b1), r[2]>>

RECURSIVE ClipLcpD(_, _, _, _, _)
ClipLcpD(d, j, i, e, acc) ==
  IF i + acc >= e THEN acc
  ELSE IF d[j + acc + 1] # d[i + acc + 1] THEN acc
  ELSE ClipLcpD(d, j, i, e, acc + 1)

MinMatch == 2     \* min(3, InputLen1)

RECURSIVE LcsD(_, _, _, _, _)
LcsD(d, j, i, back, acc) ==
  IF acc >= back THEN acc
  ELSE IF d[j - acc] # d[i - acc] THEN acc       \* bytes j-1-acc and i-1-acc (0-based)
  ELSE LcsD(d, j, i, back, acc + 1)

(* BDHP: number of bytes a match at i with source j moves to the left *)
BackLen(i, j, litIndex) ==
  IF ~Backward THEN 0
  ELSE LET back == Min(i - litIndex, j) IN IF back > 0 THEN LcsD(data, j, i, back, 0) ELSE 0

(* covered positions after a match at i of length k *)
Cover(tt, i, li2, e1, e2) ==
  IF Backward
  THEN <<InsOne(tt[1], data, i + 1, Min(li2, e1)), tt[2]>>     \* bdhp.go: h1 only
  ELSE LET r == InsBoth(tt, data, i + 1, Min(li2, e2))
           j == Max(i + 1, Min(li2, e2))
       IN IF j < li2 THEN <<InsOne(r[1], data, j, Min(li2, e1)), r[2]>> ELSE r

(* tail loop: positions e2 <= i < e1, h1 only *)
RECURSIVE TailLoop(_, _, _, _, _, _)
TailLoop(tt, i, e, e1, litIndex, seqs) ==
  IF i >= e1 THEN [tt |-> tt, seqs |-> seqs, lit |-> litIndex]
  ELSE LET x == G1(data, i)
           entry == tt[1][S1(x)]
           tb1 == <<Ins1(tt[1], data, i), tt[2]>>
           j == entry[1]
           o == i - j
       IN IF x # entry[2] \/ ~(0 < o /\ o <= cf.Wnd) THEN TailLoop(tb1, i + 1, e, e1, litIndex, seqs)
          ELSE LET k == ClipLcpD(data, j, i, e, 0) IN
               IF k < MinMatch THEN TailLoop(tb1, i + 1, e, e1, litIndex, seqs)
               ELSE LET m   == BackLen(i, j, litIndex)
                        li2 == i + k
                        \* the cover loop starts at the source position j
                        tb2 == <<InsOne(tb1[1], data, j, Min(li2, e1)), tb1[2]>>
                    IN TailLoop(tb2, li2, e, e1, li2, Append(seqs, <<i - m - litIndex, k + m, o, 0>>))

(* main loop: positions i < e2 *)
RECURSIVE MainLoop(_, _, _, _, _, _, _)
MainLoop(tt, i, e, e1, e2, litIndex, seqs) ==
  IF i >= e2 THEN TailLoop(tt, i, e, e1, litIndex, seqs)
  ELSE LET x2 == G2(data, i)
           x1 == G1(data, i)
           en2 == tt[2][S2(x2)]
           en1 == tt[1][S1(x1)]
           tb1 == <<Ins1(tt[1], data, i), Ins2(tt[2], data, i)>>
           hit2 == x2 = en2[2]
           hit1 == x1 = en1[2]
           entry == IF hit2 THEN en2 ELSE en1
           j == entry[1]
           o == i - j
       IN IF (~hit2 /\ ~hit1) \/ ~(0 < o /\ o <= cf.Wnd) THEN MainLoop(tb1, i + 1, e, e1, e2, litIndex, seqs)
          ELSE LET k == ClipLcpD(data, j, i, e, 0) IN
               IF k < MinMatch THEN MainLoop(tb1, i + 1, e, e1, e2, litIndex, seqs)
               ELSE LET m   == BackLen(i, j, litIndex)
                        li2 == i + k
                    IN MainLoop(Cover(tb1, i - m, li2, e1, e2), li2, e, e1, e2, li2,
                                Append(seqs, <<i - m - litIndex, k + m, o, 0>>))

RECURSIVE LitsOf(_, _, _, _)
LitsOf(seqs, k, pos, acc) ==
  IF k > Len(seqs) THEN acc
  ELSE LET s == seqs[k] IN LitsOf(seqs, k + 1, pos + s[1] + s[2], acc \o SubSeq(data, pos + 1, pos + s[1]))

Apply(e1, call, pred) ==
  /\ ev' = e1
  /\ st' = PEff(st, e1)
  /\ ops' = IF EmitOps THEN Append(ops, call @@ [expect |-> pred]) ELSE ops

DoWrite ==
  \E p \in Bytes(MaxWrite) :
    /\ p # <<>>
    /\ Len(st.inp) + Len(p) <= MaxInp
    /\ LET avail == cf.B - Len(data)
           n == Min(Len(p), avail)
       IN /\ data' = data \o SubSeq(p, 1, n)
          /\ Apply([op |-> "write", p |-> p, n |-> n, err |-> IF avail < Len(p) THEN "full" ELSE ""],
                   [op |-> "write", p |-> p], [n |-> n])
    /\ UNCHANGED <<w, off, t1, t2, cf>>

DoParse ==
  \E fl \in {0, 1} :
    LET n == Min(Len(data) - w, cf.Blk) IN
    IF n = 0
    THEN /\ Apply([op |-> "parse", flags |-> fl, n |-> 0, err |-> "empty", seqs |-> <<>>, lits |-> <<>>],
                  [op |-> "parse", flags |-> fl], [n |-> 0, seqs |-> <<>>])
         /\ UNCHANGED <<data, w, off, t1, t2, cf>>
    ELSE LET e  == w + n
             tt0 == ProcSeg(<<t1, t2>>, data, w - IL2 + 1, w)
             r  == MainLoop(tt0, w, e, e - IL1 + 1, e - IL2 + 1, w, <<>>)
             ntl == fl = 1 /\ r.seqs # <<>>
             newW == IF ntl THEN r.lit ELSE e
             lits == LitsOf(r.seqs, 1, w, <<>>) \o (IF ntl THEN <<>> ELSE SubSeq(data, r.lit + 1, e))
         IN /\ t1' = r.tt[1] /\ t2' = r.tt[2]
            /\ w' = newW
            /\ Apply([op |-> "parse", flags |-> fl, n |-> newW - w, err |-> "", seqs |-> r.seqs, lits |-> lits],
                     [op |-> "parse", flags |-> fl], [n |-> newW - w, seqs |-> r.seqs])
            /\ UNCHANGED <<data, off, cf>>

DoParseNil ==
  LET n == Min(Len(data) - w, cf.Blk) IN
  /\ IF n = 0 THEN UNCHANGED <<t1, t2, w>>
     ELSE LET r == ProcSeg(<<t1, t2>>, data, w - IL2 + 1, w + n) IN
          /\ t1' = r[1] /\ t2' = r[2]
          /\ w' = w + n
  /\ Apply([op |-> "parsenil", n |-> n, err |-> IF n = 0 THEN "empty" ELSE ""], [op |-> "parsenil"], [n |-> n])
  /\ UNCHANGED <<data, off, cf>>

Shift(tb, delta) == [s \in DOMAIN tb |-> IF tb[s][1] < delta THEN <<0, 0>> ELSE <<tb[s][1] - delta, tb[s][2]>>]

DoShrink ==
  LET delta == w - cf.S IN
  /\ IF delta <= 0 THEN UNCHANGED <<data, w, off, t1, t2>>
     ELSE /\ data' = SubSeq(data, delta + 1, Len(data))
          /\ w' = cf.S /\ off' = off + delta
          /\ t1' = Shift(t1, delta) /\ t2' = Shift(t2, delta)
  /\ Apply([op |-> "shrink", delta |-> Max(delta, 0)], [op |-> "shrink"], [delta |-> Max(delta, 0)])
  /\ UNCHANGED cf

DoReset ==
  \E d \in {<<>>} \cup { x \in Bytes(3) : Len(x) = 3 } :
    /\ Len(st.inp) > 0
    /\ IF Len(d) > cf.B
       THEN /\ UNCHANGED <<data, w, off, t1, t2>>
            /\ Apply([op |-> "reset", data |-> d, cap |-> 0, err |-> "oversize"], [op |-> "reset", data |-> d, cap |-> 0], [err |-> "oversize"])
       ELSE /\ data' = d /\ w' = 0 /\ off' = 0
            /\ IF Variant = "noreset" THEN UNCHANGED <<t1, t2>> ELSE t1' = Empty /\ t2' = Empty
            /\ Apply([op |-> "reset", data |-> d, cap |-> 0, err |-> ""], [op |-> "reset", data |-> d, cap |-> 0], [err |-> ""])
    /\ UNCHANGED cf

Next == DoWrite \/ DoParse \/ DoParseNil \/ DoShrink \/ DoReset
Spec == Init /\ [][Next]_vars

(* ---- properties ---- *)
Refines == [][PWhy(st, ev', {}) = {}]_vars

Sound(tb, il, hb) ==
  \A s \in DOMAIN tb :
    LET en == tb[s] IN
    en = <<0, 0>> \/
      /\ en[1] + il <= Len(data)
      /\ (IF il = 2 THEN G1(data, en[1]) ELSE G2(data, en[1])) = en[2]
      /\ HashTab[<<il, hb>>][en[2]] = s
TableSound == Sound(t1, IL1, cf.hb1) /\ Sound(t2, IL2, cf.hb2)
ResetClean == (ev.op = "reset" /\ ev.err = "") => (t1 = Empty /\ t2 = Empty)
AbsInv ==
  /\ data = SubSeq(st.inp, st.off0 + 1, Len(st.inp))
  /\ off = st.off0 /\ off + w = st.w
  /\ Len(data) <= cf.B
Inv == TableSound /\ ResetClean /\ AbsInv /\ PStateOk(st)

(* history output: every transition in the small scopes, a random sample    *)
(* (one in EmitEvery) in the large ones - the model check itself always     *)
(* covers the whole scope                                                    *)
Emit == EmitOps => ((EmitEvery = 1 \/ RandomElement(1..EmitEvery) = 1) => PrintT(<<"VERIF_OPS", ToJson(ops')>>))
=============================================================================
