SPECIFICATION Spec
CONSTANTS
  MaxM = 10
  K = 3
  Thrs = {1, 2, 3, 8}
  EmitOps = FALSE
INVARIANT Inv
CHECK_DEADLOCK FALSE
