SPECIFICATION Spec
CONSTANTS
  MaxM = 8
  K = 3
  Variant = "code"
  EmitOps = TRUE
INVARIANT Inv EmitInv
CHECK_DEADLOCK FALSE
