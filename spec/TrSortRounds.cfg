SPECIFICATION Spec
CONSTANTS
  MaxM = 7
  K = 4
INVARIANT Inv
CHECK_DEADLOCK FALSE
