SPECIFICATION Spec
CONSTANTS
  MaxM = 6
  K = 3
INVARIANT Inv
CHECK_DEADLOCK FALSE
