SPECIFICATION Spec
CONSTANTS
  Alpha = {0, 1, 2}
  MaxN = 8
INVARIANT Inv
CHECK_DEADLOCK FALSE
