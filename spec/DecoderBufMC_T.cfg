SPECIFICATION Spec
CONSTANTS
  Ws = {0, 1, 2, 3}
  Slack = {1, 2, 3}
  Alpha = {0, 1}
  MaxHist = 6
  MaxWrite = 2
  MaxM = 3
  MaxO = 3
  MaxSeqs = 1
  MaxLit = 1
  Grow = TRUE
  EmitOps = FALSE
CONSTRAINT Bound
INVARIANT Inv
PROPERTY Refines
VIEW View
CHECK_DEADLOCK FALSE
