SPECIFICATION Spec
CONSTANTS
  Ws = {0, 1, 2, 3}
  Slack = {1, 2, 3}
  Alpha = {0, 1}
  MaxHist = 6
  MaxWrite = 3
  MaxM = 4
  MaxO = 4
  MaxSeqs = 2
  MaxLit = 1
  Grow = TRUE
  EmitOps = FALSE
INVARIANT Inv
PROPERTY Refines
CONSTRAINT Bound
VIEW View
CHECK_DEADLOCK FALSE
