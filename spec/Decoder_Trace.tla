---------------------------- MODULE Decoder_Trace ----------------------------
(***************************************************************************)
(* Trace validation of recorded lz.Decoder executions (API calls plus the  *)
(* writer calls they made) against the DecoderEnv envelope.  Monitor       *)
(* style, see DecoderBuf_Trace.                                            *)
(***************************************************************************)
EXTENDS DecoderEnv, Json, IOUtils

Trace == ndJsonDeserialize(IOEnv.VERIF_TRACE)

(* Rules whose violation does not invalidate the abstract state.            *)
Soft == {"C07.refused"}

MaxHard == 3   \* failing events recorded per trace before the rest is skipped

VARIABLES l, st, bad, tid
vars == <<l, st, bad, tid>>

TraceInit ==
  /\ l = 1
  /\ st = EInit(0)
  /\ bad = 0
  /\ tid = ""
  /\ TLCSet(1, <<>>)

TraceNext ==
  /\ l <= Len(Trace)
  /\ l' = l + 1
  /\ LET e == Trace[l] IN
     IF e.op = "begin"
     THEN /\ tid' = e.tid
          /\ st' = EInit(e.W)
          /\ bad' = 0
     ELSE IF bad >= MaxHard \/ e.op = "end"
     THEN UNCHANGED <<tid, st, bad>>
     ELSE LET why == EWhy(st, e) IN
          IF why = {}
          THEN /\ st' = EEff(st, e)
               /\ UNCHANGED <<tid, bad>>
          ELSE IF why \subseteq Soft
          THEN \* a refusal leaves the state intact: record it, keep validating
               /\ st' = EEff(st, e)
               /\ UNCHANGED <<tid, bad>>
               /\ TLCSet(1, Append(TLCGet(1), [tid |-> tid, line |-> l, why |-> why]))
          ELSE \* a hard rule failed: record it; keep validating the rest of the
               \* trace from the state the event claims, as long as that state is sane
               /\ TLCSet(1, Append(TLCGet(1), [tid |-> tid, line |-> l, why |-> why]))
               /\ UNCHANGED tid
               /\ IF bad + 1 < MaxHard /\ EStateOk(EEff(st, e))
                     THEN st' = EEff(st, e) /\ bad' = bad + 1
                     ELSE bad' = MaxHard /\ UNCHANGED st

TraceSpec == TraceInit /\ [][TraceNext]_vars
TraceInv == bad >= MaxHard \/ EStateOk(st)

Post ==
  /\ PrintT(<<"VERIF_BAD", ToJson(TLCGet(1))>>)
  /\ PrintT(<<"VERIF_LINES", TLCGet("stats").diameter - 1, Len(Trace)>>)
=============================================================================
