SPECIFICATION Spec
CONSTANTS
  MaxM = 6
  K = 3
  Thrs = {1, 2, 8}
  EmitOps = TRUE
INVARIANT Inv Emit
CHECK_DEADLOCK FALSE
