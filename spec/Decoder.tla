------------------------------- MODULE Decoder -------------------------------
(***************************************************************************)
(* Implementation-shaped specification of lz.Decoder: the retry loops      *)
(*     for { attempt on the buffer; if not ErrFullBuffer return;           *)
(*           WriteTo(writer); if error return }                            *)
(* of Decoder.WriteByte / Write / WriteBlock (decoder_buffer.go:331-381)   *)
(* over the DecoderBufImpl buffer, with the destination writer as          *)
(* environment (it may accept only part of a write and/or fail, at most    *)
(* MaxFaults times).  One TLA+ step per loop iteration half:               *)
(*     Call -> Attempt -> (Return | Drain -> Attempt ...)                  *)
(*                                                                         *)
(* Policy selects the loop that is modelled:                               *)
(*   "spin"    the loop as pinned: retries for ever when flushing cannot   *)
(*             make room (defect D10; TLC refutes Terminates)              *)
(*   "giveup"  returns ErrFullBuffer when an attempt fails although the    *)
(*             buffer has been flushed completely                          *)
(*   "chunk"   giveup + Write and trailing literals are written in pieces  *)
(*             of BufferSize-WindowSize bytes                              *)
(*                                                                         *)
(* Properties: Terminates (C06, liveness), SinkPrefix / FlushComplete      *)
(* (C18, C04), Accounting (C17), every completed call is allowed by the    *)
(* DecoderEnv envelope (Refines).                                          *)
(***************************************************************************)
EXTENDS DecoderEnv, DecoderBufImpl, Json

CONSTANTS Ws, Slack, Alpha, MaxRef, MaxWrite, MaxM, MaxO, MaxSeqs, MaxLit,
          MaxFaults, Policy, EmitOps,
          KeepLog   \* BOOLEAN: record the writer calls of the call in progress (FALSE in
                    \* liveness configurations: a growing log would hide the spin cycle)

VARIABLES buf,    \* DecoderBufImpl state
          pc,     \* "idle" | "attempt" | "drain"
          cur,    \* the call in progress: [op, p | seqs, lits | c], remaining arguments
          acc,    \* accumulated results [n, k, l]
          wlog,   \* writer calls of the call in progress
          est,    \* envelope state (ref, sink)
          faults, \* writer faults injected so far
          ev,     \* last completed event
          ops     \* generation history

vars == <<buf, pc, cur, acc, wlog, est, faults, ev, ops>>
View == <<buf, pc, cur, acc, wlog, est, faults>>

RECURSIVE SeqsUpTo(_, _)
SeqsUpTo(S, n) == IF n = 0 THEN {<<>>} ELSE SeqsUpTo(S, n - 1) \cup [1..n -> S]
Bytes(n) == SeqsUpTo(Alpha, n)
SeqRecs == { <<lit, m, o, 0>> : lit \in 0..MaxLit, m \in 0..MaxM, o \in 0..MaxO }

CallsWByte  == [op : {"dec.wbyte"}, c : Alpha]
CallsWrite  == [op : {"dec.write"}, p : Bytes(MaxWrite)]
CallsWBlock == [op : {"dec.wblock"}, seqs : SeqsUpTo(SeqRecs, MaxSeqs), lits : Bytes(MaxLit * MaxSeqs + 2)]
CallsFlush  == [op : {"dec.flush"}]
CallsReset  == [op : {"dec.reset"}]

None == [op |-> "none"]

Init ==
  /\ \E W \in Ws, s \in Slack :
       /\ buf = IInit(W, W + s)
       /\ est = EInit(W)
       /\ ops = <<[op |-> "begin", W |-> W, B |-> W + s]>>
  /\ pc = "idle" /\ cur = None /\ acc = [n |-> 0, k |-> 0, l |-> 0]
  /\ wlog = <<>> /\ faults = 0 /\ ev = [op |-> "begin"]

(* ---- start of a call ---- *)
Start(c) ==
  /\ pc = "idle"
  /\ Len(est.ref) + (CASE c.op = "dec.write"  -> Len(c.p)
                        [] c.op = "dec.wbyte"  -> 1
                        [] c.op = "dec.wblock" -> Len(c.lits) + MatchSum(c.seqs)
                        [] OTHER -> 0) <= MaxRef
  /\ cur' = (IF c.op = "dec.wblock" THEN c @@ [seqs0 |-> c.seqs, lits0 |-> c.lits, tail |-> FALSE]
             ELSE IF c.op = "dec.write" THEN c @@ [p0 |-> c.p] ELSE c)
  /\ acc' = [n |-> 0, k |-> 0, l |-> 0]
  /\ wlog' = <<>>
  /\ pc' = IF c.op = "dec.flush" THEN "drain" ELSE IF c.op = "dec.reset" THEN "idle" ELSE "attempt"
  /\ ops' = IF EmitOps THEN Append(ops, c) ELSE ops
  /\ IF c.op = "dec.reset"
     THEN /\ buf' = IReset(buf).st
          /\ est' = EEff(est, [op |-> "dec.reset"])
          /\ ev' = [op |-> "dec.reset"]
     ELSE UNCHANGED <<buf, est, ev>>
  /\ UNCHANGED faults

(* ---- completion: build the event, advance the envelope state ---- *)
Finish(b, a, err, wl) ==
  LET e == CASE cur.op = "dec.wbyte"  -> [op |-> cur.op, c |-> cur.c, err |-> err, wcalls |-> wl]
             [] cur.op = "dec.write"  -> [op |-> cur.op, p |-> cur.p0, n |-> a.n, err |-> err, wcalls |-> wl]
             [] cur.op = "dec.wblock" -> [op |-> cur.op, seqs |-> cur.seqs0, lits |-> cur.lits0,
                                          n |-> a.n, k |-> a.k, l |-> a.l, err |-> err,
                                          untouched |-> TRUE, wcalls |-> wl]
             [] cur.op = "dec.flush"  -> [op |-> cur.op, err |-> err, wcalls |-> wl]
  IN /\ ev' = (IF KeepLog THEN e ELSE ev)   \* no history in liveness configurations
     /\ est' = EEff(est, e)
     /\ buf' = b
     /\ pc' = "idle" /\ cur' = None /\ acc' = a /\ wlog' = <<>>

(* piece size that always fits after a complete flush (decoder_buffer.go, Decoder.Write) *)
Chunk == buf.bsz - buf.W

(* ---- one attempt on the buffer ---- *)
Attempt ==
  /\ pc = "attempt"
  /\ UNCHANGED <<faults, ops>>
  /\ LET flushedB(b) == b.r = Len(b.data) IN   \* everything read: a flush cannot make room
     CASE cur.op = "dec.wbyte" ->
            LET r == IWriteByte(buf, cur.c, FALSE) IN
            IF r.ev.err # "full" THEN Finish(r.st, acc, r.ev.err, wlog)
            ELSE IF Policy # "spin" /\ flushedB(r.st) THEN Finish(r.st, acc, "full", wlog)
            ELSE /\ buf' = r.st /\ pc' = "drain" /\ UNCHANGED <<cur, acc, wlog, est, ev>>
       [] cur.op = "dec.write" ->
            LET q == IF Policy = "chunk" /\ Len(cur.p) > Chunk THEN SubSeq(cur.p, 1, Chunk) ELSE cur.p
                r == IWrite(buf, q, FALSE)
                a == [acc EXCEPT !.n = @ + r.ev.n]
                rest == SubSeq(cur.p, r.ev.n + 1, Len(cur.p))
            IN IF r.ev.err = "" /\ rest = <<>> THEN Finish(r.st, a, "", wlog)
               ELSE IF r.ev.err = "" THEN
                    /\ buf' = r.st /\ acc' = a /\ cur' = [cur EXCEPT !.p = rest]
                    /\ UNCHANGED <<pc, wlog, est, ev>>
               ELSE IF r.ev.err # "full" THEN Finish(r.st, a, r.ev.err, wlog)
               ELSE IF Policy # "spin" /\ flushedB(r.st) THEN Finish(r.st, a, "full", wlog)
               ELSE /\ buf' = r.st /\ pc' = "drain" /\ acc' = a
                    /\ UNCHANGED <<cur, wlog, est, ev>>
       [] cur.op = "dec.wblock" /\ ~cur.tail ->
            LET r == IWriteBlock(buf, cur.seqs, cur.lits, FALSE)
                a == [n |-> acc.n + r.ev.n, k |-> acc.k + r.ev.k, l |-> acc.l + r.ev.l]
                seqs2 == SubSeq(cur.seqs, r.ev.k + 1, Len(cur.seqs))
                lits2 == SubSeq(cur.lits, r.ev.l + 1, Len(cur.lits))
            IN IF r.ev.err # "full" THEN Finish(r.st, a, r.ev.err, wlog)
               ELSE IF Policy = "chunk" /\ seqs2 = <<>> THEN
                    \* only the trailing literals are left: they go through
                    \* Decoder.Write, which writes them in pieces
                    /\ buf' = r.st /\ acc' = a
                    /\ cur' = [cur EXCEPT !.seqs = <<>>, !.lits = lits2, !.tail = TRUE]
                    /\ UNCHANGED <<pc, wlog, est, ev>>
               ELSE IF Policy # "spin" /\ flushedB(r.st) THEN Finish(r.st, a, "full", wlog)
               ELSE /\ buf' = r.st /\ pc' = "drain" /\ acc' = a
                    /\ cur' = [cur EXCEPT !.seqs = seqs2, !.lits = lits2]
                    /\ UNCHANGED <<wlog, est, ev>>
       [] cur.op = "dec.wblock" /\ cur.tail ->
            LET q == IF Len(cur.lits) > Chunk THEN SubSeq(cur.lits, 1, Chunk) ELSE cur.lits
                r == IWrite(buf, q, FALSE)
                a == [acc EXCEPT !.n = @ + r.ev.n, !.l = @ + r.ev.n]
                rest == SubSeq(cur.lits, r.ev.n + 1, Len(cur.lits))
            IN IF r.ev.err = "" /\ rest = <<>> THEN Finish(r.st, a, "", wlog)
               ELSE IF r.ev.err = "" THEN
                    /\ buf' = r.st /\ acc' = a /\ cur' = [cur EXCEPT !.lits = rest]
                    /\ UNCHANGED <<pc, wlog, est, ev>>
               ELSE IF r.ev.err # "full" THEN Finish(r.st, a, r.ev.err, wlog)
               ELSE IF flushedB(r.st) THEN Finish(r.st, a, "full", wlog)
               ELSE /\ buf' = r.st /\ pc' = "drain" /\ acc' = a
                    /\ UNCHANGED <<cur, wlog, est, ev>>

(* ---- one writer call (WriteTo); the environment chooses the outcome ---- *)
Drain ==
  /\ pc = "drain"
  /\ \E acc2 \in {-1, 0, 1}, fl \in BOOLEAN :
       LET r  == IWriteTo(buf, acc2, fl)
           wc == <<r.ev.offered, r.ev.accepted, r.ev.werr>>
           wl == IF KeepLog THEN Append(wlog, wc) ELSE wlog
       IN /\ ops' = IF EmitOps THEN Append(ops, [op |-> "w", accept |-> acc2, fail |-> fl]) ELSE ops
          /\ (r.ev.werr # "" => faults < MaxFaults)
          /\ faults' = IF r.ev.werr # "" THEN faults + 1 ELSE faults
          /\ IF r.ev.werr # "" THEN Finish(r.st, acc, "writer", wl)
             ELSE IF cur.op = "dec.flush" THEN Finish(r.st, acc, "", wl)
             ELSE /\ buf' = r.st /\ wlog' = wl /\ pc' = "attempt"
                  /\ UNCHANGED <<cur, acc, est, ev>>

DoWByte  == \E c \in CallsWByte  : Start(c)
DoWrite  == \E c \in CallsWrite  : Start(c)
DoWBlock == \E c \in CallsWBlock : Start(c)
DoFlush  == \E c \in CallsFlush  : Start(c)
DoReset  == \E c \in CallsReset  : Start(c)
Step == Attempt \/ Drain
Next == DoWByte \/ DoWrite \/ DoWBlock \/ DoFlush \/ DoReset \/ Step

Spec == Init /\ [][Next]_vars /\ WF_vars(Step)

Bound == Len(est.ref) <= MaxRef

(* ---- properties ---- *)
Terminates   == [](pc # "idle" => <>(pc = "idle"))                     \* C06
Refines      == [][(pc # "idle" /\ pc' = "idle") => EWhy(est, ev') = {}]_vars
(* The design is known to refuse valid input that does not fit (C07, defect *)
(* D11); everything else must be allowed by the envelope.                   *)
RefinesButC07 == [][(pc # "idle" /\ pc' = "idle") => EWhy(est, ev') \subseteq {"C07.refused"}]_vars
SinkPrefix   == IsPrefixOf(est.sink, est.ref)                          \* C18
FlushComplete == (pc = "idle" /\ ev.op = "dec.flush" /\ ev.err = "") => est.sink = est.ref
BufAgrees    ==  \* the buffer holds the tail of the reference, read position = sink
  pc = "idle" => /\ Len(buf.data) <= Len(est.ref)
                 /\ buf.data = LastN(est.ref, Len(buf.data))
                 /\ Len(est.ref) - Len(buf.data) + buf.r = Len(est.sink)
                 /\ buf.off = Len(est.ref)
Inv == SinkPrefix /\ FlushComplete /\ BufAgrees

Emit == EmitOps => PrintT(<<"VERIF_OPS", ToJson(ops')>>)

(* ---- random walks for generation: draw the kind of call first ---- *)
KindSets == <<CallsWByte, CallsWrite, CallsWrite, CallsWBlock, CallsWBlock, CallsWBlock, CallsFlush, CallsReset>>
(* Up to four argument tuples are drawn; the first whose first attempt is   *)
(* not rejected as malformed is taken (rejected blocks still occur).       *)
WalkStart ==
  \E i \in {RandomElement({j \in 1..Len(KindSets) : Len(ops) >= 0})} :
    LET good(c) == c.op # "dec.wblock" \/
                   IWriteBlock(buf, c.seqs, c.lits, FALSE).ev.err \in {"", "full"}
    IN \E c1 \in {RandomElement(KindSets[i])} : \E c2 \in {RandomElement(KindSets[i])} :
       \E c3 \in {RandomElement(KindSets[i])} : \E c4 \in {RandomElement(KindSets[i])} :
         Start(IF good(c1) THEN c1 ELSE IF good(c2) THEN c2 ELSE IF good(c3) THEN c3 ELSE c4)
WalkNext == IF pc = "idle" THEN WalkStart ELSE Step
WalkSpec == Init /\ [][WalkNext]_vars
=============================================================================
