------------------------------- MODULE LZ77 -------------------------------
(***************************************************************************)
(* Shared reference semantics for ulikunitz/lz.                            *)
(*                                                                         *)
(* Bytes are integers 0..255.  A sequence is the 4-tuple                   *)
(* <<LitLen, MatchLen, Offset, Aux>> exactly as lz.Seq; a block is a       *)
(* tuple of sequences plus a tuple of literal bytes.  All definitions are  *)
(* written so that TLC can evaluate them on concrete values read from      *)
(* recorded traces (concrete tuples, accumulator recursion, no lazy        *)
(* function values inside recursion).                                      *)
(***************************************************************************)
EXTENDS Integers, Sequences, FiniteSets, TLC

Min(a, b) == IF a < b THEN a ELSE b
Max(a, b) == IF a > b THEN a ELSE b

Lit(s)  == s[1]
MLen(s) == s[2]
Off(s)  == s[3]
Aux(s)  == s[4]

(* TLC integers are 32-bit.  The recorder therefore saturates every uint32  *)
(* field at Huge = 2^29 (all real lengths in recorded traces are far        *)
(* smaller, and three saturated values can still be added without           *)
(* overflow).  Saturation preserves every comparison the rules make.        *)
Huge == 536870912

IsSeqRec(s) == /\ Len(s) = 4
               /\ \A i \in 1..4 : s[i] \in 0..Huge

(* Tail(h, k): the last k elements of h.                                   *)
LastN(h, k) == SubSeq(h, Len(h) - k + 1, Len(h))

(* Copy(h, o, m): h extended by m bytes copied from o bytes back.  The     *)
(* copy may overlap its own output (o < m): byte number k of the match is  *)
(* the byte o positions before it, hence periodic with period o.           *)
(* Defined only for m = 0 or 1 <= o <= Len(h).                             *)
Copy(h, o, m) ==
  IF m = 0 THEN h
  ELSE LET n == Len(h)
       IN h \o [k \in 1..m |-> h[n - o + ((k - 1) % o) + 1]]

CopyDefined(h, o, m) == m = 0 \/ (1 <= o /\ o <= Len(h))

(* Sum of the LitLen fields of the first k sequences.                      *)
RECURSIVE LitUpToAcc(_, _, _)
LitUpToAcc(seqs, k, acc) ==
  IF k = 0 THEN acc ELSE LitUpToAcc(seqs, k - 1, acc + Lit(seqs[k]))
LitUpTo(seqs, k) == LitUpToAcc(seqs, k, 0)
LitSum(seqs) == LitUpTo(seqs, Len(seqs))

RECURSIVE MatchSumAcc(_, _, _)
MatchSumAcc(seqs, k, acc) ==
  IF k = 0 THEN acc ELSE MatchSumAcc(seqs, k - 1, acc + MLen(seqs[k]))
MatchSum(seqs) == MatchSumAcc(seqs, Len(seqs), 0)

(* lz.Block.Len(): literals plus all match lengths.                        *)
BlockLen(seqs, lits) == Len(lits) + MatchSum(seqs)

(* ExpandSeqs(h, seqs, lits, k): the reference expander applied to the     *)
(* first k sequences.  Result: <<history, literals consumed, defined>>.    *)
(* `defined` is FALSE as soon as a sequence claims more literals than      *)
(* remain or copies from before the start of the history / offset 0.       *)
RECURSIVE ExpandAcc(_, _, _, _, _, _)
ExpandAcc(h, li, seqs, lits, i, k) ==
  IF i > k THEN <<h, li, TRUE>>
  ELSE LET s  == seqs[i]
           l2 == li + Lit(s)
       IN IF l2 > Len(lits) THEN <<h, li, FALSE>>
          ELSE LET h1 == h \o SubSeq(lits, li + 1, l2)
               IN IF ~CopyDefined(h1, Off(s), MLen(s)) THEN <<h1, l2, FALSE>>
                  ELSE ExpandAcc(Copy(h1, Off(s), MLen(s)), l2, seqs, lits, i + 1, k)

ExpandSeqs(h, seqs, lits, k) == ExpandAcc(h, 0, seqs, lits, 1, k)

(* ExpandK(h, seqs, lits, k, l): history after the first k sequences and   *)
(* l literal bytes in total have been consumed (l >= literals of those k   *)
(* sequences; the surplus are trailing literals).                          *)
ExpandK(h, seqs, lits, k, l) ==
  LET r == ExpandSeqs(h, seqs, lits, k)
  IN r[1] \o SubSeq(lits, r[2] + 1, l)

ExpandKDefined(h, seqs, lits, k, l) ==
  LET r == ExpandSeqs(h, seqs, lits, k)
  IN r[3] /\ r[2] <= l /\ l <= Len(lits)

(* Full expansion of a block.                                              *)
Expand(h, seqs, lits) == ExpandK(h, seqs, lits, Len(seqs), Len(lits))
ExpandDefined(h, seqs, lits) == ExpandKDefined(h, seqs, lits, Len(seqs), Len(lits))

(* Common prefix of t[i+1..lim] and t[j+1..] (0-based start positions i,j; *)
(* comparison stops at position lim (exclusive, 0-based) for the i side).  *)
RECURSIVE LcpAcc(_, _, _, _, _)
LcpAcc(t, i, j, lim, acc) ==
  IF i + acc >= lim \/ j + acc >= Len(t) THEN acc
  ELSE IF t[i + acc + 1] # t[j + acc + 1] THEN acc
  ELSE LcpAcc(t, i, j, lim, acc + 1)
Lcp(t, i, j, lim) == LcpAcc(t, i, j, lim, 0)

(* Longest previous match at 0-based position i against sources lo..i-1,   *)
(* clipped at lim.                                                         *)
RECURSIVE LPMAcc(_, _, _, _, _)
LPMAcc(t, j, i, lim, best) ==
  IF j >= i THEN best
  ELSE LPMAcc(t, j + 1, i, lim, Max(best, Lcp(t, i, j, lim)))
LPM(t, lo, i, lim) == LPMAcc(t, lo, i, lim, 0)

(* Number of bits of x (bits.Len32).                                       *)
RECURSIVE BitLenAcc(_, _)
BitLenAcc(x, acc) == IF x = 0 THEN acc ELSE BitLenAcc(x \div 2, acc + 1)
BitLen(x) == BitLenAcc(x, 0)

(* Transcription of lz.XZCost (osap.go).                                   *)
XZCost(m, o) ==
  IF o = 0 THEN 9 * m
  ELSE LET mm == m - 2
           cm == IF mm < 8 THEN 4 ELSE IF mm < 16 THEN 5 ELSE 10
           d  == o - 1
           co == IF d < 4 THEN 4 ELSE 2 + BitLen(d)
       IN cm + co

RECURSIVE SeqCostAcc(_, _, _)
SeqCostAcc(seqs, k, acc) ==
  IF k = 0 THEN acc
  ELSE SeqCostAcc(seqs, k - 1, acc + XZCost(MLen(seqs[k]), Off(seqs[k])))
BlockCost(seqs, lits) == SeqCostAcc(seqs, Len(seqs), 0) + 9 * Len(lits)

IsPrefixOf(a, b) == Len(a) <= Len(b) /\ SubSeq(b, 1, Len(a)) = a
=============================================================================
