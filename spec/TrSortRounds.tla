---------------------------- MODULE TrSortRounds ----------------------------
(***************************************************************************)
(* Design-level model of the rank sort of the B* suffixes (suffix/trsort.go*)
(* trSort): prefix doubling over the string s of B*-substring ranks.       *)
(*                                                                         *)
(* State: isa (x -> index of the LAST member of x's group in the current   *)
(* order, as the code keeps it) and the depth d.  A round looks at every   *)
(* group with more than one member and separates its members by the keys   *)
(* isa[x+d], isa[x+2d], ... (trIntroSort is a multikey sort that goes      *)
(* deeper by d until the group falls apart or its budget is used up).  The *)
(* model lets every round choose how deep it goes (Levels: at least one    *)
(* level - that much the code always does - up to all); the next round     *)
(* doubles d.                                                              *)
(*                                                                         *)
(* Invariants (the contract the trace rules DRIFT09.round_* check on the   *)
(* arrays the real trSort holds at the start of every round, verif hook):  *)
(*   Consistent  isa never orders two suffixes against the true order      *)
(*   GroupMax    isa[x] is the last index of x's group                     *)
(*   Shares      members of a group agree on their first d symbols, and    *)
(*   InRange     x + d stays inside the string for every such member -     *)
(*               the reads isa[x+d] of the next round are inside the array *)
(*               because the last B* substring is unique                   *)
(*   Finishes    once d >= m every group is a single suffix: isa is the    *)
(*               rank of the suffix                                        *)
(***************************************************************************)
EXTENDS Integers, Sequences, FiniteSets, TLC

CONSTANTS MaxM, K

VARIABLES s, isa, d
vars == <<s, isa, d>>

RECURSIVE SeqsUpTo(_, _)
SeqsUpTo(S, n) == IF n = 0 THEN {<<>>} ELSE SeqsUpTo(S, n - 1) \cup [1..n -> S]

m == Len(s)
Suf(x) == SubSeq(s, x + 1, m)               \* 0-based suffix
SeqLess(u, v) == LET RECURSIVE lt(_)
                     lt(k) == IF k > Len(u) THEN k <= Len(v) ELSE IF k > Len(v) THEN FALSE
                              ELSE IF u[k] # v[k] THEN u[k] < v[k] ELSE lt(k + 1)
                 IN lt(1)
TrueLess(x, y) == SeqLess(Suf(x), Suf(y))
TrueRank(x) == Cardinality({ y \in 0..m - 1 : TrueLess(y, x) })

(* ranks by a key function: index of the last member of the group *)
RankBy(key(_)) == [x \in 0..m - 1 |-> Cardinality({ y \in 0..m - 1 : ~SeqLess(key(x), key(y)) }) - 1]

(* the last substring of a text is unique: so is the last symbol of s *)
Init ==
  /\ s \in { x \in SeqsUpTo(0..K - 1, MaxM) : Len(x) >= 2 /\ \A i \in 1..Len(x) - 1 : x[i] # x[Len(x)] }
  /\ isa = RankBy(LAMBDA x : <<s[x + 1]>>)
  /\ d = 1

At(f, x) == IF x < m THEN f[x] ELSE -1
Round ==
  /\ \E x, y \in 0..m - 1 : x # y /\ isa[x] = isa[y]
  /\ \E levels \in 1..m :
       isa' = RankBy(LAMBDA x : <<isa[x]>> \o [j \in 1..levels |-> At(isa, x + j * d)])
  /\ d' = 2 * d
  /\ UNCHANGED s
Done == (\A x, y \in 0..m - 1 : x # y => isa[x] # isa[y]) /\ UNCHANGED vars
Next == Round \/ Done
Spec == Init /\ [][Next]_vars

Consistent == \A x, y \in 0..m - 1 : isa[x] < isa[y] => TrueLess(x, y)
GroupMax == \A x \in 0..m - 1 : isa[x] = Cardinality({ y \in 0..m - 1 : isa[y] <= isa[x] }) - 1
Shares == \A x, y \in 0..m - 1 :
            (x # y /\ isa[x] = isa[y]) =>
               /\ x + d < m /\ y + d < m                                   \* InRange
               /\ SubSeq(s, x + 1, x + d) = SubSeq(s, y + 1, y + d)
Finishes == d >= m => \A x \in 0..m - 1 : isa[x] = TrueRank(x)
Inv == Consistent /\ GroupMax /\ Shares /\ Finishes
=============================================================================
