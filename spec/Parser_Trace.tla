---------------------------- MODULE Parser_Trace ----------------------------
(***************************************************************************)
(* Trace validation of recorded parser executions (all seven parsers and   *)
(* the raw ParserBuffer) against the ParserSM envelope.  Monitor style,    *)
(* see DecoderBuf_Trace.  VERIF_C11 / VERIF_C12 = "1" switch the cubic     *)
(* oracles (cost-optimal parse, longest previous match) on.                *)
(***************************************************************************)
EXTENDS ParserSM, Json, IOUtils

Trace == ndJsonDeserialize(IOEnv.VERIF_TRACE)

Heavy == (IF IOEnv.VERIF_C11 = "1" THEN {"C11"} ELSE {})
         \cup (IF IOEnv.VERIF_C12 = "1" THEN {"C12"} ELSE {})

(* Rules whose violation does not invalidate the abstract state: the       *)
(* match-quality rules say nothing about how the stream advances.          *)
Soft == {"C19.right_maximal", "C19.left_maximal", "C19.run_literals",
         "C12.match_longest", "C12.literal_justified", "C12.no_longer_match", "C11.cost_optimal", "C11.not_above_witness", "C00.witness_invalid"}

MaxHard == 3   \* failing events recorded per trace before the rest is skipped

VARIABLES l, st, bad, tid
vars == <<l, st, bad, tid>>

NoCfg == [kind |-> "HP", B |-> 1, S |-> 0, Wnd |-> 1, Blk |-> 1, il |-> 3, mm |-> 3, xm |-> 3]

TraceInit ==
  /\ l = 1
  /\ st = PInit(NoCfg)
  /\ bad = 0
  /\ tid = ""
  /\ TLCSet(1, <<>>)

TraceNext ==
  /\ l <= Len(Trace)
  /\ l' = l + 1
  /\ LET e == Trace[l] IN
     IF e.op = "begin"
     THEN /\ tid' = e.tid
          /\ st' = PInit(e.c)
          /\ bad' = 0
     ELSE IF bad >= MaxHard /\ e.op = "panic"
     THEN \* the rest of a rejected trace is not judged (its state is unknown),
          \* with one exception that needs no state: a public call that panics
          /\ TLCSet(1, Append(TLCGet(1), [tid |-> tid, line |-> l, why |-> {"C16.no_panic"}]))
          /\ UNCHANGED <<tid, st, bad>>
     ELSE IF bad >= MaxHard \/ e.op = "end"
     THEN UNCHANGED <<tid, st, bad>>
     ELSE LET why == PWhy(st, e, Heavy) IN
          IF why = {}
          THEN /\ st' = PEff(st, e)
               /\ UNCHANGED <<tid, bad>>
          ELSE IF why \subseteq Soft
          THEN /\ st' = PEff(st, e)
               /\ UNCHANGED <<tid, bad>>
               /\ TLCSet(1, Append(TLCGet(1), [tid |-> tid, line |-> l, why |-> why]))
          ELSE \* a hard rule failed: record it; keep validating the rest of the
               \* trace from the state the event claims, as long as that state is sane
               /\ TLCSet(1, Append(TLCGet(1), [tid |-> tid, line |-> l, why |-> why]))
               /\ UNCHANGED tid
               /\ IF bad + 1 < MaxHard /\ PStateOk(PEff(st, e))
                     THEN st' = PEff(st, e) /\ bad' = bad + 1
                     ELSE bad' = MaxHard /\ UNCHANGED st

TraceSpec == TraceInit /\ [][TraceNext]_vars
TraceInv == bad >= MaxHard \/ PStateOk(st)

Post ==
  /\ PrintT(<<"VERIF_BAD", ToJson(TLCGet(1))>>)
  /\ PrintT(<<"VERIF_LINES", TLCGet("stats").diameter - 1, Len(Trace)>>)
=============================================================================
