SPECIFICATION Spec
CONSTANTS
  MaxM = 8
  K = 3
INVARIANT Inv
CHECK_DEADLOCK FALSE
