SPECIFICATION Spec
CONSTANTS
  MaxM = 8
  K = 4
INVARIANT Inv
CHECK_DEADLOCK FALSE
