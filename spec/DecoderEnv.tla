----------------------------- MODULE DecoderEnv -----------------------------
(***************************************************************************)
(* Envelope specification of lz.Decoder (the retry loops around            *)
(* DecoderBuffer plus a destination io.Writer), properties C06 C07 C18     *)
(* (and the Decoder-level readings of C04 C05 C17).                        *)
(*                                                                         *)
(* Abstract state:                                                         *)
(*   ref   reference expansion of everything written since Init/Reset      *)
(*   sink  bytes the destination writer has accepted since Init/Reset      *)
(*   W     window size                                                     *)
(* An event is one public Decoder call observed at its return, together    *)
(* with the writer calls it made (wcalls: <<offered, accepted, werr>> in   *)
(* call order).  The decoder's buffer is not observable here; what is      *)
(* observable is exactly what the properties talk about.                   *)
(***************************************************************************)
EXTENDS DecoderBuf

EInit(W) == [ref |-> <<>>, sink |-> <<>>, W |-> W]

Offered(c)  == c[1]
Accepted(c) == c[2]
WErr(c)     == c[3]

(* The sink after the first i writer calls.                                *)
RECURSIVE SinkAfter(_, _, _)
SinkAfter(sink, wcalls, i) ==
  IF i = 0 THEN sink
  ELSE SinkAfter(sink, wcalls, i - 1) \o SubSeq(Offered(wcalls[i]), 1, Accepted(wcalls[i]))

HasFault(wcalls) == \E i \in 1..Len(wcalls) : WErr(wcalls[i]) # ""

EBlockArgsOk(st, e) ==
  /\ e.k \in 0..Len(e.seqs)
  /\ e.l \in 0..Len(e.lits)
  /\ \A i \in 1..Len(e.seqs) : IsSeqRec(e.seqs[i])
  /\ ExpandKDefined(st.ref, e.seqs, e.lits, e.k, e.l)

(* Reference after the event (results taken for what the call consumed).   *)
NewRef(st, e) ==
  CASE e.op = "dec.wbyte"  -> IF e.err = "" THEN Append(st.ref, e.c) ELSE st.ref
    [] e.op = "dec.write"  -> IF e.n \in 0..Len(e.p) THEN st.ref \o SubSeq(e.p, 1, e.n) ELSE st.ref
    [] e.op = "dec.wblock" -> IF EBlockArgsOk(st, e)
                              THEN ExpandK(st.ref, e.seqs, e.lits, e.k, e.l) ELSE st.ref
    [] e.op = "dec.reset"  -> <<>>
    [] OTHER               -> st.ref

IsDecCall(e) == e.op \in {"dec.wbyte", "dec.write", "dec.wblock", "dec.flush"}

EEff(st, e) ==
  IF e.op = "dec.reset" THEN EInit(st.W)
  ELSE IF IsDecCall(e)
  THEN [ref |-> NewRef(st, e), sink |-> SinkAfter(st.sink, e.wcalls, Len(e.wcalls)), W |-> st.W]
  ELSE st

(* Rules about the writer calls of one API call.                           *)
WriterRules(st, e) ==
  LET ref2 == NewRef(st, e)
      wc   == e.wcalls
      nw   == Len(wc)
  IN {
    (* C18: whatever is offered continues the reference expansion exactly  *)
    (* where the writer's accepted bytes end: accepted bytes are always a  *)
    (* prefix of the expansion, nothing is offered twice, nothing skipped. *)
    <<"C18.prefix",
      \A i \in 1..nw :
        LET s == SinkAfter(st.sink, wc, i - 1) IN
        /\ Accepted(wc[i]) \in 0..Len(Offered(wc[i]))
        /\ Len(s) + Len(Offered(wc[i])) <= Len(ref2)
        /\ Offered(wc[i]) = SubSeq(ref2, Len(s) + 1, Len(s) + Len(Offered(wc[i])))>>,
    (* C04 at the Decoder level: the bytes handed to the writer are exactly  *)
    (* the reference expansion, each byte once and in order (the same       *)
    (* predicate as C18.prefix; reported by the C04 check as well).         *)
    <<"C04.output_exact",
      \A i \in 1..nw :
        LET s == SinkAfter(st.sink, wc, i - 1) IN
        /\ Len(s) + Len(Offered(wc[i])) <= Len(ref2)
        /\ Offered(wc[i]) = SubSeq(ref2, Len(s) + 1, Len(s) + Len(Offered(wc[i])))>>,
    (* C18: a writer fault ends the call and is what the call returns.      *)
    <<"C18.err_is_writers",
      /\ \A i \in 1..nw : WErr(wc[i]) # "" => i = nw
      /\ (nw > 0 /\ WErr(wc[nw]) # "") => e.err = "writer"
      /\ e.err = "writer" => (nw > 0 /\ WErr(wc[nw]) # "")>>
  }

EOpRules(st, e) ==
  CASE e.op = "dec.wbyte" -> {
      <<"C07.refused", (~HasFault(e.wcalls)) => e.err = "">> }
    [] e.op = "dec.write" -> {
      <<"C17.write_n", e.n \in 0..Len(e.p) /\ (e.err = "" => e.n = Len(e.p))>>,
      <<"C07.refused", (~HasFault(e.wcalls)) => e.err = "">> }
    [] e.op = "dec.wblock" ->
      IF ~EBlockArgsOk(st, e) THEN { <<"C05.atomic", FALSE>> }
      ELSE LET fb  == FirstBad(st.ref, e.seqs, e.lits, e.k, st.W)
               fb1 == FirstBad(st.ref, e.seqs, e.lits, Min(e.k + 1, Len(e.seqs)), st.W)
               lk  == LitUpTo(e.seqs, e.k)
           IN {
        <<"C05.reject_seq", e.k < fb>>,
        <<"C17.k",  e.err = "" => e.k = Len(e.seqs)>>,
        <<"C17.l",  IF e.err = "" THEN e.l = Len(e.lits)
                    ELSE IF e.k < Len(e.seqs) THEN e.l = lk ELSE e.l >= lk>>,
        <<"C17.n",  e.n = Len(NewRef(st, e)) - Len(st.ref)>>,
        <<"C05.nothing_of_failing", (e.err # "" /\ e.k < Len(e.seqs)) => e.l = lk>>,
        <<"C05.block_untouched", e.untouched>>,
        (* C07: without a writer fault the call may stop only at a malformed *)
        (* sequence (the one after the k consumed ones).                     *)
        <<"C07.refused",
          (~HasFault(e.wcalls) /\ e.err # "") => (e.k < Len(e.seqs) /\ fb1 = e.k + 1)>> }
    [] e.op = "dec.flush" -> {
      (* after a flush without writer fault everything has arrived (C04/C18) *)
      <<"C18.exactly_once",
        (~HasFault(e.wcalls)) =>
          (e.err = "" /\ SinkAfter(st.sink, e.wcalls, Len(e.wcalls)) = st.ref)>>,
      <<"C04.flush_complete",
        (~HasFault(e.wcalls)) => SinkAfter(st.sink, e.wcalls, Len(e.wcalls)) = st.ref>> }
    [] e.op = "dec.reset" -> {}
    [] e.op = "panic"    -> { <<"C05.no_panic", FALSE>> }
    [] e.op = "livelock" -> { <<"C06.livelock", FALSE>> }
    [] e.op = "timeout"  -> { <<"C06.timeout", FALSE>> }
    [] OTHER -> { <<"C00.unknown_op", FALSE>> }

ERules(st, e) == EOpRules(st, e) \cup (IF IsDecCall(e) THEN WriterRules(st, e) ELSE {})
EWhy(st, e) == { r[1] : r \in { x \in ERules(st, e) : ~x[2] } }

EStateOk(st) == IsPrefixOf(st.sink, st.ref)
=============================================================================
