SPECIFICATION Spec
CONSTANTS
  Ws = {0, 1, 2}
  Slack = {1, 2}
  Alpha = {0, 1}
  MaxRef = 5
  MaxWrite = 3
  MaxM = 3
  MaxO = 2
  MaxSeqs = 1
  MaxLit = 1
  MaxFaults = 1
  Policy = "chunk"
  EmitOps = FALSE
  KeepLog = TRUE
INVARIANT Inv
PROPERTY RefinesButC07
VIEW View
CHECK_DEADLOCK FALSE
