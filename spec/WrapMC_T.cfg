SPECIFICATION Spec
CONSTANTS
  Bs = {1, 2, 3, 4, 5}
  Blks = {1, 2, 3, 6}
  MaxSrc = 9
  EmitOps = FALSE
  AllowFaults = TRUE
INVARIANTS Inv NoFull
PROPERTIES Refines Terminates
VIEW View
CHECK_DEADLOCK FALSE
