----------------------------- MODULE E2E_Trace -----------------------------
(***************************************************************************)
(* Trace validation of the composition parser || decoder: a real parser's  *)
(* blocks are written into a real Decoder with the same WindowSize.  The   *)
(* parser events are judged by the ParserSM envelope (state st), the       *)
(* decoder events by the DecoderEnv envelope (state es), and the           *)
(* composition by                                                          *)
(*   C07.output   after a Flush without writer fault the sink holds        *)
(*                exactly the bytes the parser has parsed or skipped:      *)
(*                es.sink = SubSeq(st.inp, 1, st.w)                        *)
(* This is C07 on real parser output (every sequence a parser emits for    *)
(* its window must be accepted by a decoder with that window) and C01 end  *)
(* to end.                                                                 *)
(***************************************************************************)
EXTENDS ParserSM, DecoderEnv, Json, IOUtils

Trace == ndJsonDeserialize(IOEnv.VERIF_TRACE)

SoftRules == {"C19.right_maximal", "C19.left_maximal", "C19.run_literals",
              "C12.match_longest", "C12.literal_justified", "C12.no_longer_match", "C11.cost_optimal", "C11.not_above_witness", "C00.witness_invalid", "C07.refused"}

MaxHard == 3   \* failing events recorded per trace before the rest is skipped

VARIABLES l, st, es, bad, tid
vars == <<l, st, es, bad, tid>>

NoCfg == [kind |-> "HP", B |-> 1, S |-> 0, Wnd |-> 1, Blk |-> 1, il |-> 3, mm |-> 3, xm |-> 3]

IsDec(e) == e.op \in {"dec.wbyte", "dec.write", "dec.wblock", "dec.flush", "dec.reset"}

TraceInit ==
  /\ l = 1 /\ st = PInit(NoCfg) /\ es = EInit(1) /\ bad = 0 /\ tid = ""
  /\ TLCSet(1, <<>>)

Compose(s, d, e) ==
  IF e.op = "dec.flush" /\ ~HasFault(e.wcalls) /\ e.err = ""
  THEN { <<"C07.output", d.sink = SubSeq(s.inp, 1, s.w)>> }
  ELSE {}

WhyE(e) ==
  IF IsDec(e) \/ e.op = "livelock"
  THEN LET d2 == EEff(es, e)
           r  == ERules(es, e) \cup Compose(st, d2, e)
       IN { x[1] : x \in { y \in r : ~y[2] } }
  ELSE PWhy(st, e, {})

TraceNext ==
  /\ l <= Len(Trace)
  /\ l' = l + 1
  /\ LET e == Trace[l] IN
     IF e.op = "begin"
     THEN /\ tid' = e.tid /\ st' = PInit(e.c) /\ es' = EInit(e.W) /\ bad' = 0
     ELSE IF bad >= MaxHard \/ e.op = "end"
     THEN UNCHANGED <<tid, st, es, bad>>
     ELSE LET why == WhyE(e) IN
          IF why \subseteq SoftRules
          THEN /\ IF IsDec(e) THEN es' = EEff(es, e) /\ st' = st ELSE st' = PEff(st, e) /\ es' = es
               /\ UNCHANGED <<tid, bad>>
               /\ (why # {} => TLCSet(1, Append(TLCGet(1), [tid |-> tid, line |-> l, why |-> why])))
          ELSE \* a hard rule failed: record it; keep validating the rest of the
               \* trace from the state the event claims, as long as that state is sane
               /\ TLCSet(1, Append(TLCGet(1), [tid |-> tid, line |-> l, why |-> why]))
               /\ UNCHANGED tid
               /\ IF bad + 1 < MaxHard /\ PStateOk(IF IsDec(e) THEN st ELSE PEff(st, e))
                        /\ EStateOk(IF IsDec(e) THEN EEff(es, e) ELSE es)
                     THEN /\ bad' = bad + 1
                          /\ IF IsDec(e) THEN es' = EEff(es, e) /\ st' = st ELSE st' = PEff(st, e) /\ es' = es
                     ELSE bad' = MaxHard /\ UNCHANGED <<st, es>>

TraceSpec == TraceInit /\ [][TraceNext]_vars
TraceInv == bad >= MaxHard \/ (PStateOk(st) /\ EStateOk(es))

Post ==
  /\ PrintT(<<"VERIF_BAD", ToJson(TLCGet(1))>>)
  /\ PrintT(<<"VERIF_LINES", TLCGet("stats").diameter - 1, Len(Trace)>>)
=============================================================================
