SPECIFICATION Spec
CONSTANTS
  MaxM = 7
  K = 3
  Variant = "code"
  EmitOps = TRUE
INVARIANT Inv EmitInv
CHECK_DEADLOCK FALSE
