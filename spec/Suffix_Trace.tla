---------------------------- MODULE Suffix_Trace ----------------------------
(***************************************************************************)
(* Trace validation of recorded suffix.Sort / LCP / InvertSA / Segments    *)
(* calls against SuffixDefs (monitor style; every event is judged on its   *)
(* own).                                                                   *)
(***************************************************************************)
EXTENDS SuffixDefs, Json, IOUtils

Trace == ndJsonDeserialize(IOEnv.VERIF_TRACE)

VARIABLES l, tid
vars == <<l, tid>>

TraceInit == l = 1 /\ tid = "" /\ TLCSet(1, <<>>)

TraceNext ==
  /\ l <= Len(Trace)
  /\ l' = l + 1
  /\ LET e == Trace[l] IN
     IF e.op = "begin" THEN tid' = e.tid
     ELSE IF e.op = "end" THEN UNCHANGED tid
     ELSE LET why == SuffixWhy(e) IN
          /\ UNCHANGED tid
          /\ (why # {} => TLCSet(1, Append(TLCGet(1), [tid |-> tid, line |-> l, why |-> why])))

TraceSpec == TraceInit /\ [][TraceNext]_vars

Post ==
  /\ PrintT(<<"VERIF_BAD", ToJson(TLCGet(1))>>)
  /\ PrintT(<<"VERIF_LINES", TLCGet("stats").diameter - 1, Len(Trace)>>)
=============================================================================
