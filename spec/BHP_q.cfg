SPECIFICATION Spec
CONSTANTS
  Alpha = {0, 1}
  Scope = "quick"
  MaxInp = 6
  MaxWrite = 3
  EmitOps = TRUE
  EmitEvery = 1
  Backward = TRUE
INVARIANT Inv
PROPERTY Refines
ACTION_CONSTRAINT Emit
VIEW View
CHECK_DEADLOCK FALSE
