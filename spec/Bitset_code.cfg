SPECIFICATION Spec
CONSTANTS
  P = {0, 1, 63, 64, 127, 128, 200, 260}
  MaxOps = 7
  Variant = "code"
  EmitOps = FALSE
INVARIANT Inv
VIEW View
CHECK_DEADLOCK FALSE
