SPECIFICATION WalkSpec
CONSTANTS
  Bs = {2, 3, 4, 6, 9}
  Alpha = {0, 1}
  MaxInp = 60
  MaxWrite = 5
  Blks = {1, 2, 3, 5}
  EmitOps = TRUE
INVARIANT Inv
ACTION_CONSTRAINT Emit
CHECK_DEADLOCK FALSE
