SPECIFICATION Spec
CONSTANTS
  Sigma = 3
  MaxN = 10
  Variant = "code"
  EmitOps = FALSE
INVARIANT Inv
CHECK_DEADLOCK FALSE
