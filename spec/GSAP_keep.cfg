SPECIFICATION Spec
CONSTANTS
  Alpha = {0, 1}
  MaxN = 6
  Blks = {2, 3, 5}
  MinMs = {2}
  Wnds = {16}
  Variant = "keep"
  EmitOps = FALSE
  EmitEvery = 1
  AllowNTL = TRUE
  TwoWrites = TRUE
  AllowNil = FALSE
INVARIANT StateInv NoFuture
PROPERTY Refines
ACTION_CONSTRAINT Emit
VIEW View
CHECK_DEADLOCK FALSE
