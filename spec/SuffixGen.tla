------------------------------ MODULE SuffixGen ------------------------------
(***************************************************************************)
(* Small-scope input enumeration for C09: every text over Alpha up to      *)
(* length MaxN is one initial state; each is handed to the real            *)
(* suffix.Sort / LCP / InvertSA ("one test per state").  TLC also checks   *)
(* on each text that the definitional suffix array (obtained by sorting    *)
(* with the lexicographic order on suffixes) satisfies both checker forms  *)
(* used on recorded results.                                               *)
(***************************************************************************)
EXTENDS SuffixDefs, SequencesExt, Json

CONSTANTS Alpha, MaxN

VARIABLES t
vars == <<t>>

RECURSIVE SeqsUpTo(_, _)
SeqsUpTo(S, n) == IF n = 0 THEN {<<>>} ELSE SeqsUpTo(S, n - 1) \cup [1..n -> S]

Init == t \in SeqsUpTo(Alpha, MaxN)
Next == UNCHANGED vars
Spec == Init /\ [][Next]_vars

TrueSA(x) == SortSeq([i \in 1..Len(x) |-> i - 1], LAMBDA a, b : SuffixLess(x, a, b))
InvOf(p) == [x \in 1..Len(p) |-> (CHOOSE i \in 1..Len(p) : p[i] = x - 1) - 1]

Sane == LET sa == TrueSA(t) IN IsSA(t, sa) /\ IsSAlinear(t, sa, InvOf(sa))
Emit == PrintT(<<"VERIF_OPS", ToJson(<<[op |-> "suffix", t |-> t]>>)>>)
Inv == Sane /\ Emit
=============================================================================
