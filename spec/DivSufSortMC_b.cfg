SPECIFICATION Spec
CONSTANTS
  Sigma = 2
  MaxN = 11
  Variant = "code"
  EmitOps = FALSE
INVARIANT Inv
CHECK_DEADLOCK FALSE
