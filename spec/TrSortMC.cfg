SPECIFICATION Spec
CONSTANTS
  MaxM = 6
  K = 3
  Thrs = {1, 2, 8}
  EmitOps = FALSE
INVARIANT Inv
CHECK_DEADLOCK FALSE
