------------------------------- MODULE TwoRun -------------------------------
(***************************************************************************)
(* Self-composition specification for the hyper-properties of lz:          *)
(*   C13  Reset makes a parser equivalent to a new one; parsing is         *)
(*        deterministic; distinct instances do not influence each other    *)
(*        (also when used concurrently);                                   *)
(*   C08  the block sequence of a WrappedParser does not depend on how the *)
(*        reader chunks its data;                                          *)
(*   C20  a parser created from the configuration another parser reports   *)
(*        behaves identically.                                             *)
(*                                                                         *)
(* A behaviour consists of several runs, each on its own object of the     *)
(* same configuration.  The first run is the reference.  From its "sync"   *)
(* marker on, the observable results of every call of a run (what a user   *)
(* of the object sees: operation, flags, n, error class, the block) are    *)
(* compared, call by call, with the reference run.                         *)
(*                                                                         *)
(* State: ref  the projected calls of the reference run after its sync     *)
(*        cur  name of the run in progress ("" before the first)           *)
(*        pos  number of calls of the current run compared so far          *)
(*             (-1 while the run has not reached its sync marker)          *)
(*        first TRUE while the reference run is being recorded             *)
(***************************************************************************)
EXTENDS Integers, Sequences, TLC

TInit(mode) == [mode |-> mode, ref |-> <<>>, cur |-> "", pos |-> -1, first |-> TRUE, done |-> 0]

Fld(e, f, dflt) == IF f \in DOMAIN e THEN e[f] ELSE dflt

(* what the user of the object observes of one call *)
Proj(e) == [op |-> e.op,
            flags |-> Fld(e, "flags", 0),
            n |-> Fld(e, "n", 0),
            err |-> Fld(e, "err", ""),
            delta |-> Fld(e, "delta", 0),
            seqs |-> Fld(e, "seqs", <<>>),
            lits |-> Fld(e, "lits", <<>>)]

(* calls that are compared: in chunking mode only the calls on the wrapper *)
(* (the inner ReadFrom calls legitimately differ with the chunking)        *)
Compared(mode, e) ==
  IF mode = "chunk" THEN e.op \in {"wparse", "wparsenil"}
  ELSE e.op \in {"parse", "parsenil", "write", "readfrom", "shrink", "reset", "wparse", "wparsenil"}

RuleName(mode) ==
  CASE mode = "reset" -> "C13.reset_equal"
    [] mode = "det"   -> "C13.determinism"
    [] mode = "conc"  -> "C13.concurrent_equal"
    [] mode = "chunk" -> "C08.chunking_equal"
    [] mode = "cfg"   -> "C20.reported_behaviour"
    [] OTHER          -> "C00.unknown_mode"

(* a run ends (next run begins, or the trace ends): it must have made as   *)
(* many compared calls as the reference                                    *)
EndRules(ts) ==
  IF ts.first \/ ts.cur = "" \/ ts.pos < 0 THEN {}
  ELSE { <<RuleName(ts.mode), ts.pos = Len(ts.ref)>> }

TRules(ts, e) ==
  CASE e.op = "run"  -> EndRules(ts)
    [] e.op = "end"  -> EndRules(ts)
    [] e.op = "sync" -> {}
    [] e.op \in {"panic", "timeout", "livelock", "stalled"} ->
         { <<"C16.no_panic", e.op # "panic">>, <<"C16.no_hang", e.op = "panic">>,
           <<RuleName(ts.mode), FALSE>> }
    [] OTHER ->
         IF ts.first \/ ts.pos < 0 \/ ~Compared(ts.mode, e) THEN {}
         ELSE { <<RuleName(ts.mode),
                  /\ ts.pos + 1 <= Len(ts.ref)
                  /\ ts.ref[ts.pos + 1] = Proj(e)>> }

TWhy(ts, e) == { r[1] : r \in { x \in TRules(ts, e) : ~x[2] } }

TEff(ts, e) ==
  CASE e.op = "run"  -> [ts EXCEPT !.cur = e.run, !.pos = -1, !.first = (ts.cur = ""),
                                   !.done = IF ts.cur = "" THEN 0 ELSE @ + 1]
    [] e.op = "sync" -> [ts EXCEPT !.pos = 0]
    [] e.op = "end"  -> ts
    [] OTHER ->
         IF ts.pos < 0 \/ ~Compared(ts.mode, e) THEN ts
         ELSE IF ts.first THEN [ts EXCEPT !.ref = Append(@, Proj(e)), !.pos = @ + 1]
         ELSE [ts EXCEPT !.pos = @ + 1]
=============================================================================
