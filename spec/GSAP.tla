-------------------------------- MODULE GSAP --------------------------------
(***************************************************************************)
(* Implementation-shaped model of the greedy suffix array parser           *)
(* (gsap.go: sort, Parse, Reset/Shrink) over an abstract search set.       *)
(*                                                                         *)
(* The code keeps the suffix array sa of the whole buffer, its inverse,    *)
(* and a bit set `bits` of the suffix-array ranks of the positions that    *)
(* have been processed.  At position i it inserts i, takes the two         *)
(* neighbours of i in suffix order among the members, prefers the longer   *)
(* common prefix (ties: the later position), and emits a match if the      *)
(* length is at least MinMatchLen and 0 < offset < WindowSize.  The model  *)
(* keeps `bits` as a set of POSITIONS and finds the neighbours with the    *)
(* definitional suffix order (SuffixLess), which is what the ranks mean.   *)
(*                                                                         *)
(* All data is written before the first Parse (one buffer fill), so the    *)
(* suffix array is built once and later blocks reuse the search set -      *)
(* exactly the situation in which positions inserted by an earlier pass    *)
(* matter (NoTrailingLiterals re-offers the trailing literals: the parse   *)
(* position goes back, the search set does not).                           *)
(*                                                                         *)
(* Variant = "forget"  gsap.go: the trailing positions that are re-offered *)
(*                     are removed from the search set again               *)
(* Variant = "keep"    the defect that was repaired (D17): they stay, and  *)
(*                     a later position can hide an earlier match.  TLC    *)
(*                     does not refute it for binary texts up to 11 bytes  *)
(*                     and MinMatchLen <= 3 (the witness found by trace    *)
(*                     validation has 93 bytes and MinMatchLen 4); the     *)
(*                     invariant NoFuture separates the two variants.      *)
(*                                                                         *)
(* Properties checked on every emitted block (the C12 / C02 rules of the   *)
(* ParserSM envelope, evaluated by the same operators that judge recorded  *)
(* executions): every match is the longest previous match, a literal is    *)
(* justified when the buffer is no larger than the window, sequences are   *)
(* well formed, the block expands to the input.                            *)
(***************************************************************************)
EXTENDS ParserSM, SuffixDefs, Json

CONSTANTS Alpha, MaxN, Blks, MinMs, Wnds, Variant, EmitOps, EmitEvery, AllowNTL, TwoWrites,
          AllowNil   \* TRUE: Parse(nil) is explored as well (C14); the C12 rules then stop applying

VARIABLES t,      \* the whole text (arrives in one or two writes)
          avail,  \* bytes written so far
          cf,     \* [Blk, mm, Wnd]
          w,      \* parse position
          bits,   \* positions in the search set
          sorted, \* number of bytes the suffix array covers (0: none yet)
          st,     \* ParserSM envelope state
          ev,     \* last emitted event
          ops

vars == <<t, avail, cf, w, bits, sorted, st, ev, ops>>
View == <<t, avail, cf, w, bits, sorted>>

RECURSIVE SeqsUpTo(_, _)
SeqsUpTo(S, n) == IF n = 0 THEN {<<>>} ELSE SeqsUpTo(S, n - 1) \cup [1..n -> S]

Cfg(c, n) == [kind |-> "GSAP", B |-> n, S |-> n \div 2, Wnd |-> c.Wnd, Blk |-> c.Blk, il |-> 0, mm |-> c.mm, xm |-> 0]

Init ==
  /\ t \in SeqsUpTo(Alpha, MaxN) /\ Len(t) >= 1
  /\ avail \in (IF TwoWrites THEN 1..Len(t) ELSE {Len(t)})
  /\ cf \in [Blk : Blks, mm : MinMs, Wnd : Wnds]
  /\ cf.mm <= cf.Wnd
  /\ w = 0 /\ bits = {} /\ sorted = 0
  /\ st = [PInit(Cfg(cf, Len(t))) EXCEPT !.inp = SubSeq(t, 1, avail)]
  /\ ev = [op |-> "begin"]
  /\ ops = <<[op |-> "begin", kind |-> "GSAP", BufferSize |-> Len(t), ShrinkSize |-> 0, WindowSize |-> cf.Wnd,
              BlockSize |-> cf.Blk, MinMatchLen |-> cf.mm],
             [op |-> "write", p |-> SubSeq(t, 1, avail)]>>

(* lcp(p[f:], p[i:]) for p = t[0..e): common prefix clipped at the block end e *)
RECURSIVE ClipLcp(_, _, _, _)
ClipLcp(f, i, e, acc) ==
  IF f + acc >= e \/ i + acc >= e THEN acc
  ELSE IF t[f + acc + 1] # t[i + acc + 1] THEN acc
  ELSE ClipLcp(f, i, e, acc + 1)

(* neighbours of position i among the members M (i \in M) in the suffix    *)
(* order of the text D the suffix array was built for                      *)
Before(D, M, i) == { k \in M : k # i /\ SuffixLess(D, k, i) }
After(D, M, i)  == { k \in M : k # i /\ SuffixLess(D, i, k) }
MaxSuf(D, S) == CHOOSE k \in S : \A x \in S : x = k \/ SuffixLess(D, x, k)
MinSuf(D, S) == CHOOSE k \in S : \A x \in S : x = k \/ SuffixLess(D, k, x)

(* the scan loop of Parse from position i; returns [seqs, lit, bits]       *)
RECURSIVE Scan(_, _, _, _, _, _)
Scan(D, i, e, litIndex, b, seqs) ==
  IF i >= e THEN [seqs |-> seqs, lit |-> litIndex, bits |-> b]
  ELSE LET b1 == b \cup {i}
           bf == Before(D, b1, i)
           af == After(D, b1, i)
           f1 == IF bf = {} THEN 0 ELSE MaxSuf(D, bf)
           m1 == IF bf = {} THEN 0 ELSE ClipLcp(f1, i, e, 0)
           f2 == IF af = {} THEN 0 ELSE MinSuf(D, af)
           m2 == IF af = {} THEN 0 ELSE ClipLcp(f2, i, e, 0)
           take2 == af # {} /\ (m2 > m1 \/ (m2 = m1 /\ f2 > f1))
           f == IF take2 THEN f2 ELSE f1
           m == IF take2 THEN m2 ELSE m1
           o == i - f
       IN IF m < cf.mm \/ ~(0 < o /\ o < cf.Wnd)
          THEN Scan(D, i + 1, e, litIndex, b1, seqs)
          ELSE Scan(D, i + m, e, i + m, b1 \cup (i + 1 .. i + m - 1),
                    Append(seqs, <<i - litIndex, m, o, 0>>))

RECURSIVE LitsOf(_, _, _, _)
LitsOf(seqs, k, pos, acc) ==     \* literal bytes of the sequences, in order
  IF k > Len(seqs) THEN <<acc, pos>>
  ELSE LET s == seqs[k] IN
       LitsOf(seqs, k + 1, pos + s[1] + s[2], acc \o SubSeq(t, pos + 1, pos + s[1]))

DoParse ==
  \E fl \in (IF AllowNTL THEN {0, 1} ELSE {0}) :
    LET n == Min(avail - w, cf.Blk) IN
    /\ n > 0
    /\ LET need == w + n > sorted                         \* if i+n > len(s.sa) { s.sort() }
           cov  == IF need THEN avail ELSE sorted
           b0 == IF need THEN 0 .. w - 1 ELSE bits          \* sort(): the set is rebuilt from the parsed positions
           e  == w + n
           r  == Scan(SubSeq(t, 1, cov), w, e, w, b0, <<>>)
           ntl == fl = 1 /\ r.seqs # <<>>
           newW == IF ntl THEN r.lit ELSE e
           lp  == LitsOf(r.seqs, 1, w, <<>>)
           lits == IF ntl THEN lp[1] ELSE lp[1] \o SubSeq(t, r.lit + 1, e)
           e1 == [op |-> "parse", flags |-> fl, n |-> newW - w, err |-> "", seqs |-> r.seqs, lits |-> lits]
       IN /\ ev' = e1
          /\ st' = PEff(st, e1)
          /\ w' = newW
          /\ bits' = IF Variant # "keep" /\ ntl THEN r.bits \ (r.lit .. e - 1) ELSE r.bits
          /\ sorted' = cov
          /\ ops' = IF EmitOps THEN Append(ops, [op |-> "parse", flags |-> fl,
                                                  expect |-> [n |-> newW - w, seqs |-> r.seqs]]) ELSE ops
    /\ UNCHANGED <<t, avail, cf>>

(* the rest of the data arrives: the suffix array no longer covers the     *)
(* buffer, the next Parse sorts again and rebuilds the search set          *)
WriteRest ==
  /\ avail < Len(t)
  /\ avail' = Len(t)
  /\ ev' = [op |-> "write", p |-> SubSeq(t, avail + 1, Len(t)), n |-> Len(t) - avail, err |-> ""]
  /\ st' = PEff(st, ev')
  /\ ops' = IF EmitOps THEN Append(ops, [op |-> "write", p |-> SubSeq(t, avail + 1, Len(t))]) ELSE ops
  /\ UNCHANGED <<t, cf, w, bits, sorted>>

(* Parse(nil): the block is skipped - the parse position advances, the      *)
(* search set is left alone (the next sort() re-inserts all positions in   *)
(* front of the parse position)                                            *)
DoParseNil ==
  /\ AllowNil
  /\ LET n == Min(avail - w, cf.Blk) IN
     /\ n > 0
     /\ ev' = [op |-> "parsenil", n |-> n, err |-> ""]
     /\ st' = PEff(st, ev')
     /\ w' = w + n
     /\ ops' = IF EmitOps THEN Append(ops, [op |-> "parsenil", flags |-> 0]) ELSE ops
  /\ UNCHANGED <<t, avail, cf, bits, sorted>>

Next == DoParse \/ WriteRest \/ DoParseNil
Spec == Init /\ [][Next]_vars

(* every emitted block satisfies the envelope (C01 C02 C03 C12 rules) *)
Refines == [][ev'.op \in {"parse", "parsenil"} => PWhy(st, ev', {"C12"}) = {}]_vars
StateInv == w = st.w /\ ((sorted > 0 /\ st.nils = 0) => \A i \in 0 .. w - 1 : i \in bits)
(* the search set never holds a position the parser has not reached *)
NoFuture == sorted > 0 => \A k \in bits : k < w

(* "Hot" states for history generation: at the next position a position    *)
(* that lies AHEAD of it (left in the search set by a NoTrailingLiterals   *)
(* pass) would be chosen as match source with a sufficient length - the    *)
(* code must refuse it by the 0 < offset test.  Histories that reach such  *)
(* a state are always replayed into the real parser (not only sampled).    *)
FutureWinsAt(i, e, b) ==
  LET D  == SubSeq(t, 1, sorted)
      b1 == b \cup {i}
      bf == Before(D, b1, i)
      af == After(D, b1, i)
      f1 == IF bf = {} THEN 0 ELSE MaxSuf(D, bf)
      m1 == IF bf = {} THEN 0 ELSE ClipLcp(f1, i, e, 0)
      f2 == IF af = {} THEN 0 ELSE MinSuf(D, af)
      m2 == IF af = {} THEN 0 ELSE ClipLcp(f2, i, e, 0)
      take2 == af # {} /\ (m2 > m1 \/ (m2 = m1 /\ f2 > f1))
      f == IF take2 THEN f2 ELSE f1
      m == IF take2 THEN m2 ELSE m1
  IN m >= cf.mm /\ f > i
Hot == LET n == Min(avail - w, cf.Blk) IN
       \/ sorted > 0 /\ w + n <= sorted /\ n > 0 /\ FutureWinsAt(w, w + n, bits)
       \/ sorted > 0 /\ n > 0 /\ w + n > sorted /\ bits # {}     \* next Parse sorts again over a used search set

HotEvery == IF EmitEvery = 1 THEN 1 ELSE (EmitEvery \div 10) + 1

Emit == EmitOps =>
          /\ ((EmitEvery = 1 \/ RandomElement(1..EmitEvery) = 1) => PrintT(<<"VERIF_OPS", ToJson(ops')>>))
          /\ ((Hot' /\ (EmitEvery = 1 \/ RandomElement(1..HotEvery) = 1)) => PrintT(<<"VERIF_HOT", ToJson(Append(ops', [op |-> "parse", flags |-> 0]))>>))
=============================================================================
