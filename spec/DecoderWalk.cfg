SPECIFICATION WalkSpec
CONSTANTS
  Ws = {1, 2, 3}
  Slack = {2, 4, 7}
  Alpha = {0, 1}
  MaxRef = 40
  MaxWrite = 6
  MaxM = 5
  MaxO = 3
  MaxSeqs = 2
  MaxLit = 2
  MaxFaults = 3
  Policy = "chunk"
  EmitOps = TRUE
  KeepLog = TRUE
INVARIANT Inv
ACTION_CONSTRAINT Emit
CHECK_DEADLOCK FALSE
