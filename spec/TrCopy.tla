------------------------------- MODULE TrCopy -------------------------------
(***************************************************************************)
(* Implementation-shaped model of suffix.trCopy and suffix.trPartialCopy   *)
(* (suffix/trsort.go): how the rank sort orders a TANDEM REPEAT part.      *)
(*                                                                         *)
(* Situation (case -1 / -2 of trIntroSort).  G is a group of suffixes of   *)
(* the rank string s that agree on their first d symbols and occupies      *)
(* sa[first..last).  Its members are split by where their successor x+d    *)
(* lies: L (successor in front of the group), M (successor INSIDE the      *)
(* group - the tandem repeats, their order depends on the order of the     *)
(* group itself) and R (successor behind the group).  L and R have been    *)
(* sorted by the ranks of their successors and sit in sa[first..a) and     *)
(* sa[b..last); the members of M still carry the group's rank v = last-1   *)
(* and sit, unordered, in sa[a..b).  trCopy induces the order of M: a scan *)
(* from the left over L (and over what it places itself) puts x-d behind   *)
(* for every x it meets whose x-d is an unplaced member of M, a scan from  *)
(* the right over R does the same from the other end.  trPartialCopy is    *)
(* the version for L and R that are only sorted up to ties (the budget of  *)
(* the rank sort ran out): ranks of tied members are shared.               *)
(*                                                                         *)
(* Every admissible situation of the scope (rank string, depth, group,     *)
(* tie depth) is one initial state; the single step runs the transcribed   *)
(* function.  Checked: the region is still a permutation of G (Perm),      *)
(* ranks never contradict the true order (Consistent), ranks are the last  *)
(* index of their tie block (GroupMax); for trCopy the region is in true   *)
(* order (Sorted).  Variant "nothirdloop" is the pinned trPartialCopy that *)
(* lacked its third loop (fix c2d2d9a): TLC shows that the region is no    *)
(* longer a permutation.                                                   *)
(*                                                                         *)
(* Binding: every initial state is replayed into the real functions        *)
(* through the verif-tagged export VerifTrCopy and the arrays they leave    *)
(* are compared with the model's, entry by entry (rule DRIFT09.trcopy).    *)
(***************************************************************************)
EXTENDS Integers, Sequences, FiniteSets, Json, TLC

CONSTANTS MaxM, K, Variant, EmitOps

VARIABLES s, d, g0, tie, partial, phase, sa, isa
vars == <<s, d, g0, tie, partial, phase, sa, isa>>

RECURSIVE SeqsUpTo(_, _)
SeqsUpTo(S, n) == IF n = 0 THEN {<<>>} ELSE SeqsUpTo(S, n - 1) \cup [1..n -> S]

m == Len(s)
Suf(x) == SubSeq(s, x + 1, m)
SeqLess(u, v) == LET RECURSIVE lt(_)
                     lt(k) == IF k > Len(u) THEN k <= Len(v) ELSE IF k > Len(v) THEN FALSE
                              ELSE IF u[k] # v[k] THEN u[k] < v[k] ELSE lt(k + 1)
                 IN lt(1)
TrueLess(x, y) == SeqLess(Suf(x), Suf(y))
TrueRank(x) == Cardinality({ y \in 0..m - 1 : TrueLess(y, x) })
Pre(x, h) == SubSeq(s, x + 1, IF x + h < m THEN x + h ELSE m)
(* rank by the first h symbols, last index of the tie block *)
HRank(x, h) == Cardinality({ y \in 0..m - 1 : ~SeqLess(Pre(x, h), Pre(y, h)) }) - 1

(* the group of g0 at depth d *)
G == { x \in 0..m - 1 : Pre(x, d) = Pre(g0, d) }
First == Cardinality({ y \in 0..m - 1 : \A x \in G : TrueLess(y, x) })
Last == First + Cardinality(G)
InG(x) == x \in G
Mset == { x \in G : x + d < m /\ (x + d) \in G }
Lset == { x \in G \ Mset : x + d < m /\ TrueRank(x + d) < First }
Rset == { x \in G \ Mset : x + d < m /\ TrueRank(x + d) >= Last }

(* sort a set of positions by a key (sequence of integers), ties by index *)
SortBy(S, key(_)) ==
  LET RECURSIVE srt(_, _)
      srt(rest, acc) ==
        IF rest = {} THEN acc
        ELSE LET x == CHOOSE x \in rest : \A y \in rest : ~SeqLess(key(y), key(x)) /\ (key(y) = key(x) => x <= y)
             IN srt(rest \ {x}, Append(acc, x))
  IN srt(S, <<>>)

(* the key L and R were sorted by: the rank of the successor, exact for trCopy, *)
(* up to ties (first `tie` symbols) for trPartialCopy                          *)
KeyOf(x) == IF partial THEN <<HRank(x + d, tie)>> ELSE <<TrueRank(x + d)>>

Admissible ==
  /\ Cardinality(G) >= 2
  /\ \A x \in G : x + d < m                 \* TrSortRounds!InRange
  /\ Mset # {}
  /\ G = Mset \cup Lset \cup Rset

InitArrays ==
  LET lseq == SortBy(Lset, KeyOf)
      rseq == SortBy(Rset, KeyOf)
      mseq == SortBy(Mset, LAMBDA x : <<x>>)
      reg  == lseq \o mseq \o rseq
      a0   == First + Len(lseq)
      b0   == a0 + Len(mseq)
      outside == SortBy((0..m - 1) \ G, LAMBDA x : <<TrueRank(x)>>)
      saF  == [i \in 0..m - 1 |->
                 IF i < First THEN outside[i + 1]
                 ELSE IF i < Last THEN reg[i - First + 1]
                 ELSE outside[i - Cardinality(G) + 1]]
      \* rank of a member of L or R: last index of its tie block inside its part
      PartRank(x, part, base) ==
        base + Cardinality({ y \in part : ~SeqLess(KeyOf(x), KeyOf(y)) }) - 1
      isaF == [x \in 0..m - 1 |->
                 IF x \in Mset THEN b0 - 1
                 ELSE IF x \in Lset THEN PartRank(x, Lset, First)
                 ELSE IF x \in Rset THEN PartRank(x, Rset, b0)
                 ELSE IF partial THEN HRank(x, tie) ELSE TrueRank(x)]
  IN <<saF, isaF, a0, b0>>

Init ==
  /\ s \in { x \in SeqsUpTo(0..K - 1, MaxM) : Len(x) >= 3 /\ \A i \in 1..Len(x) - 1 : x[i] # x[Len(x)] }
  /\ d \in 1..3
  /\ g0 \in 0..Len(s) - 1
  /\ g0 = CHOOSE x \in G : \A y \in G : x <= y        \* one representative per group
  /\ partial \in BOOLEAN
  /\ tie \in (IF partial THEN {2 * d, 3 * d} ELSE {0})
  /\ Admissible
  /\ phase = "pre"
  /\ sa = InitArrays[1] /\ isa = InitArrays[2]

A0 == First + Cardinality(Lset)
B0 == A0 + Cardinality(Mset)

(* ---- the transcriptions: state <<sa, isa, dd>> ---- *)
RECURSIVE Loop1(_, _, _, _, _, _)       \* forward scan; pc = c, dd = d of the code
Loop1(f, g, c, dd, lastrank, newrank) ==
  IF c > dd THEN <<f, g, dd>>
  ELSE LET x == f[c] - d IN
       IF x >= 0 /\ g[x] = B0 - 1
       THEN LET dd1 == dd + 1
                f1  == [f EXCEPT ![dd1] = x]
            IN IF ~partial THEN Loop1(f1, [g EXCEPT ![x] = dd1], c + 1, dd1, lastrank, newrank)
               ELSE LET rank == g[x + d]
                        nr   == IF lastrank # rank THEN dd1 ELSE newrank
                    IN Loop1(f1, [g EXCEPT ![x] = nr], c + 1, dd1, rank, nr)
       ELSE Loop1(f, g, c + 1, dd, lastrank, newrank)

RECURSIVE Loop2(_, _, _, _, _)          \* trPartialCopy: ranks of [first..d] to the last-index convention
Loop2(f, g, e, lastrank, newrank) ==
  IF e < First THEN g
  ELSE LET rank == g[f[e]]
           nr   == IF lastrank # rank THEN e ELSE newrank
       IN Loop2(f, IF nr # rank THEN [g EXCEPT ![f[e]] = nr] ELSE g, e - 1, rank, nr)

RECURSIVE Loop3(_, _, _, _, _, _, _)    \* backward scan from the right end
Loop3(f, g, c, e, dd, lastrank, newrank) ==
  IF ~(e < dd) THEN <<f, g, TRUE>>
  ELSE IF c < 0 THEN <<f, g, FALSE>>                    \* the code would index sa[-1]
  ELSE LET x == f[c] - d IN
       IF x >= 0 /\ g[x] = B0 - 1
       THEN LET dd1 == dd - 1
                f1  == [f EXCEPT ![dd1] = x]
            IN IF ~partial THEN Loop3(f1, [g EXCEPT ![x] = dd1], c - 1, e, dd1, lastrank, newrank)
               ELSE LET rank == g[x + d]
                        nr   == IF lastrank # rank THEN dd1 ELSE newrank
                    IN Loop3(f1, [g EXCEPT ![x] = nr], c - 1, e, dd1, rank, nr)
       ELSE Loop3(f, g, c - 1, e, dd, lastrank, newrank)

Copy ==
  LET r1 == Loop1(sa, isa, First, A0 - 1, -1, -1)
      g2 == IF partial THEN Loop2(r1[1], r1[2], r1[3], -1, -1) ELSE r1[2]
      r3 == IF partial /\ Variant = "nothirdloop" THEN <<r1[1], g2, TRUE>>
            ELSE Loop3(r1[1], g2, Last - 1, r1[3] + 1, B0, -1, -1)
  IN r3

Step ==
  /\ phase = "pre"
  /\ LET r == Copy IN
     /\ sa' = r[1] /\ isa' = r[2]
     /\ phase' = IF r[3] THEN "post" ELSE "overrun"
  /\ UNCHANGED <<s, d, g0, tie, partial>>
Done == phase # "pre" /\ UNCHANGED vars
Next == Step \/ Done
Spec == Init /\ [][Next]_vars

(* ---- properties of the result ---- *)
Region == First..Last - 1
NoOverrun == phase # "overrun"
Perm == phase = "post" => { sa[i] : i \in Region } = G
Consistent == phase = "post" => \A x, y \in G : isa[x] < isa[y] => TrueLess(x, y)
GroupMax == phase = "post" =>
              \A x \in G : isa[x] = First + Cardinality({ y \in G : isa[y] <= isa[x] }) - 1
Blocks == phase = "post" => \A i \in Region : \A j \in Region : (i <= j /\ j <= isa[sa[i]]) => isa[sa[j]] = isa[sa[i]]
Sorted == (phase = "post" /\ ~partial) => \A i \in Region : sa[i] = CHOOSE x \in G : TrueRank(x) = i
Inv == NoOverrun /\ Perm /\ Consistent /\ GroupMax /\ Blocks /\ Sorted

(* history output: the pre-state as one call of the real function *)
Emit == (EmitOps /\ phase = "pre") =>
          LET r == Copy IN
          PrintT(<<"VERIF_OPS", ToJson(<<[op |-> "trcopy", s |-> s, sa |-> [i \in 1..m |-> sa[i - 1]],
                                          isa |-> [i \in 1..m |-> isa[i - 1]], first |-> First, a |-> A0, b |-> B0,
                                          last |-> Last, depth |-> d, partial |-> partial,
                                          expect |-> [sa_after |-> [i \in 1..m |-> r[1][i - 1]],
                                                      isa_after |-> [i \in 1..m |-> r[2][i - 1]]]]>>)>>)
EmitInv == Emit
=============================================================================
