SPECIFICATION Spec
CONSTANTS
  Alpha = {0, 1, 2}
  MaxN = 6
INVARIANT Inv
CHECK_DEADLOCK FALSE
