SPECIFICATION Spec
CONSTANTS
  MaxLen = 20
  EmitOps = TRUE
INVARIANT Inv Emit
CHECK_DEADLOCK FALSE
