SPECIFICATION Spec
CONSTANTS
  Alpha = {0, 1, 2}
  MaxN = 7
  Blks = {2, 3, 5}
  MinMs = {2, 3}
  Wnds = {3, 16}
  Variant = "forget"
  EmitOps = TRUE
  EmitEvery = 20
  AllowNTL = TRUE
  TwoWrites = TRUE
  AllowNil = FALSE
INVARIANTS StateInv NoFuture
PROPERTY Refines
ACTION_CONSTRAINT Emit
VIEW View
CHECK_DEADLOCK FALSE
