---------------------------- MODULE Bitset_Trace ----------------------------
(***************************************************************************)
(* Trace validation of recorded executions of the real bitset (through the *)
(* VerifBitset hook) against the set semantics of Bitset.tla (BRules).     *)
(***************************************************************************)
EXTENDS BitsetDefs, Json, IOUtils

Trace == ndJsonDeserialize(IOEnv.VERIF_TRACE)

VARIABLES l, T, bad, tid
tvars == <<l, T, bad, tid>>

TraceInit == l = 1 /\ T = {} /\ bad = 0 /\ tid = "" /\ TLCSet(1, <<>>)

TraceNext ==
  /\ l <= Len(Trace)
  /\ l' = l + 1
  /\ LET e == Trace[l] IN
     IF e.op = "begin" THEN tid' = e.tid /\ T' = {} /\ bad' = 0
     ELSE IF bad # 0 \/ e.op = "end" THEN UNCHANGED <<tid, T, bad>>
     ELSE IF e.op \in {"panic", "timeout"}
     THEN /\ bad' = l /\ UNCHANGED <<tid, T>>
          /\ TLCSet(1, Append(TLCGet(1), [tid |-> tid, line |-> l, why |-> {"C12.bitset_no_panic"}]))
     ELSE LET why == { r[1] : r \in { x \in BRules(T, e) : ~x[2] } } IN
          IF why = {} THEN T' = BEff(T, e) /\ UNCHANGED <<tid, bad>>
          ELSE /\ bad' = l /\ UNCHANGED <<tid, T>>
               /\ TLCSet(1, Append(TLCGet(1), [tid |-> tid, line |-> l, why |-> why]))

TraceSpec == TraceInit /\ [][TraceNext]_tvars

Post ==
  /\ PrintT(<<"VERIF_BAD", ToJson(TLCGet(1))>>)
  /\ PrintT(<<"VERIF_LINES", TLCGet("stats").diameter - 1, Len(Trace)>>)
=============================================================================
