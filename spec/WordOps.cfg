SPECIFICATION Spec
CONSTANTS
  MaxLen = 20
  EmitOps = FALSE
INVARIANT Inv
CHECK_DEADLOCK FALSE
