-------------------------------- MODULE BUP --------------------------------
(***************************************************************************)
(* Implementation-shaped model of the bucket parser BUP (bup.go) with its  *)
(* dictionary (bucket_hash.go): every hash slot owns a bucket of           *)
(* BucketSize entries <<pos, val>> that is filled in rotation (idx[h] is   *)
(* the next entry to overwrite); Parse scans the whole bucket for the      *)
(* longest match (ties: the smaller offset) and stops at the first empty   *)
(* entry (<<0,0>>, the same aliasing with "position 0, all-zero gram" as   *)
(* in the code); shiftOffsets compacts every bucket starting at its        *)
(* rotation index, drops entries below delta, re-bases the others and      *)
(* sets the index behind the survivors (0 if the bucket stays full);       *)
(* reset clears entries and indexes.                                       *)
(*                                                                         *)
(* As in HP.tla the slot function is the real one (HPHash.tla), so the     *)
(* model predicts the blocks of the real parser (DRIFT comparison).        *)
(*                                                                         *)
(* Checked: every event satisfies the ParserSM envelope (C01 C02 C03 C14   *)
(* C15 C19.right_maximal); BucketSound - every non-empty entry describes   *)
(* the buffer and hashes to its bucket; ResetClean.                        *)
(***************************************************************************)
EXTENDS ParserSM, HPHash, Json

CONSTANTS Alpha, Scope, MaxInp, MaxWrite, EmitOps, EmitEvery

Geoms ==
  IF Scope = "quick"
  THEN { [B |-> 5, S |-> 2, Wnd |-> wd, Blk |-> k, il |-> 2, hb |-> 1, bs |-> b] :
           wd \in {2, 8}, k \in {3, 8}, b \in {1, 2} }
  ELSE { [B |-> bb, S |-> sz, Wnd |-> wd, Blk |-> k, il |-> il, hb |-> h, bs |-> b] :
           bb \in {4, 6}, sz \in {1, 3}, wd \in {1, 3, 8}, k \in {2, 3, 8}, il \in {2, 3}, h \in {1, 2}, b \in {1, 2, 3} }

VARIABLES data, w, off, table, idx, cf, st, ev, ops

vars == <<data, w, off, table, idx, cf, st, ev, ops>>
View == <<data, w, off, table, idx, cf, st.inp>>

RECURSIVE SeqsUpTo(_, _)
SeqsUpTo(S, n) == IF n = 0 THEN {<<>>} ELSE SeqsUpTo(S, n - 1) \cup [1..n -> S]
Bytes(n) == SeqsUpTo(Alpha, n)

NSlots == CASE cf.hb = 1 -> 2 [] cf.hb = 2 -> 4 [] OTHER -> 8
E0 == <<0, 0>>
EmptyT == [s \in 0..3 |-> [k \in 1..3 |-> E0]]
EmptyI == [s \in 0..3 |-> 0]

Cfg(c) == [kind |-> "BUP", B |-> c.B, S |-> c.S, Wnd |-> c.Wnd, Blk |-> c.Blk, il |-> c.il, mm |-> 0, xm |-> 0]

Init ==
  /\ cf \in Geoms
  /\ data = <<>> /\ w = 0 /\ off = 0 /\ table = EmptyT /\ idx = EmptyI
  /\ st = PInit(Cfg(cf))
  /\ ev = [op |-> "begin"]
  /\ ops = <<[op |-> "begin", kind |-> "BUP", BufferSize |-> cf.B, ShrinkSize |-> cf.S, WindowSize |-> cf.Wnd,
              BlockSize |-> cf.Blk, InputLen |-> cf.il, HashBits |-> cf.hb, BucketSize |-> cf.bs]>>

Gram(d, i) == IF cf.il = 2 THEN d[i + 1] + 256 * d[i + 2]
              ELSE d[i + 1] + 256 * d[i + 2] + 65536 * d[i + 3]
Slot(x) == HashTab[<<cf.il, cf.hb>>][x]

(* add(h, pos, val): overwrite the entry at the rotation index, advance it *)
Add(ti, d, i) ==
  LET x == Gram(d, i)
      h == Slot(x)
      k == ti.i[h]
  IN [t |-> [ti.t EXCEPT ![h][k + 1] = <<i, x>>],
      i |-> [ti.i EXCEPT ![h] = IF k + 1 >= cf.bs THEN 0 ELSE k + 1]]

RECURSIVE AddRange(_, _, _, _)
AddRange(ti, d, a, b) == IF a >= b THEN ti ELSE AddRange(Add(ti, d, a), d, a + 1, b)

ProcSeg(ti, d, a0, b0) ==
  LET a == Max(a0, 0)
      c == Len(d) - cf.il + 1
      b == Min(b0, c)
  IN IF b <= 0 THEN ti ELSE AddRange(ti, d, a, b)

RECURSIVE ClipLcpD(_, _, _, _, _)
ClipLcpD(d, j, i, e, acc) ==
  IF i + acc >= e THEN acc
  ELSE IF d[j + acc + 1] # d[i + acc + 1] THEN acc
  ELSE ClipLcpD(d, j, i, e, acc + 1)

MinMatch == IF cf.il < 3 THEN cf.il ELSE 3

(* the scan of one bucket: best = <<o, k>> *)
RECURSIVE BucketScan(_, _, _, _, _, _)
BucketScan(bk, n, i, e, x, best) ==
  IF n > cf.bs THEN best
  ELSE LET en == bk[n] IN
       IF x # en[2]
       THEN IF en = E0 THEN best ELSE BucketScan(bk, n + 1, i, e, x, best)
       ELSE LET j  == en[1]
                oe == i - j
            IN IF ~(0 < oe /\ oe <= cf.Wnd) THEN BucketScan(bk, n + 1, i, e, x, best)
               ELSE IF best[2] > 0 /\ data[j + best[2]] # data[i + best[2]]
                    THEN BucketScan(bk, n + 1, i, e, x, best)
               ELSE LET ke == ClipLcpD(data, j, i, e, 0) IN
                    IF ke < best[2] \/ (ke = best[2] /\ oe >= best[1])
                    THEN BucketScan(bk, n + 1, i, e, x, best)
                    ELSE BucketScan(bk, n + 1, i, e, x, <<oe, ke>>)

RECURSIVE Scan(_, _, _, _, _, _)
Scan(ti, i, e, inputEnd, litIndex, seqs) ==
  IF i >= inputEnd THEN [ti |-> ti, seqs |-> seqs, lit |-> litIndex]
  ELSE LET x == Gram(data, i)
           best == BucketScan(ti.t[Slot(x)], 1, i, e, x, <<0, 0>>)
           ti1 == Add(ti, data, i)
       IN IF best[2] < MinMatch THEN Scan(ti1, i + 1, e, inputEnd, litIndex, seqs)
          ELSE LET li2 == i + best[2]
                   ti2 == AddRange(ti1, data, i + 1, Min(li2, inputEnd))
               IN Scan(ti2, li2, e, inputEnd, li2, Append(seqs, <<i - litIndex, best[2], best[1], 0>>))

RECURSIVE LitsOf(_, _, _, _)
LitsOf(seqs, k, pos, acc) ==
  IF k > Len(seqs) THEN acc
  ELSE LET s == seqs[k] IN LitsOf(seqs, k + 1, pos + s[1] + s[2], acc \o SubSeq(data, pos + 1, pos + s[1]))

Apply(e1, call, pred) ==
  /\ ev' = e1
  /\ st' = PEff(st, e1)
  /\ ops' = IF EmitOps THEN Append(ops, call @@ [expect |-> pred]) ELSE ops

TI == [t |-> table, i |-> idx]

DoWrite ==
  \E p \in Bytes(MaxWrite) :
    /\ p # <<>>
    /\ Len(st.inp) + Len(p) <= MaxInp
    /\ LET avail == cf.B - Len(data)
           n == Min(Len(p), avail)
       IN /\ data' = data \o SubSeq(p, 1, n)
          /\ Apply([op |-> "write", p |-> p, n |-> n, err |-> IF avail < Len(p) THEN "full" ELSE ""],
                   [op |-> "write", p |-> p], [n |-> n])
    /\ UNCHANGED <<w, off, table, idx, cf>>

DoParse ==
  \E fl \in {0, 1} :
    LET n == Min(Len(data) - w, cf.Blk) IN
    IF n = 0
    THEN /\ Apply([op |-> "parse", flags |-> fl, n |-> 0, err |-> "empty", seqs |-> <<>>, lits |-> <<>>],
                  [op |-> "parse", flags |-> fl], [n |-> 0, seqs |-> <<>>])
         /\ UNCHANGED <<data, w, off, table, idx, cf>>
    ELSE LET e  == w + n
             t0 == ProcSeg(TI, data, w - cf.il + 1, w)
             r  == Scan(t0, w, e, e - cf.il + 1, w, <<>>)
             ntl == fl = 1 /\ r.seqs # <<>>
             newW == IF ntl THEN r.lit ELSE e
             lits == LitsOf(r.seqs, 1, w, <<>>) \o (IF ntl THEN <<>> ELSE SubSeq(data, r.lit + 1, e))
         IN /\ table' = r.ti.t /\ idx' = r.ti.i
            /\ w' = newW
            /\ Apply([op |-> "parse", flags |-> fl, n |-> newW - w, err |-> "", seqs |-> r.seqs, lits |-> lits],
                     [op |-> "parse", flags |-> fl], [n |-> newW - w, seqs |-> r.seqs])
            /\ UNCHANGED <<data, off, cf>>

DoParseNil ==
  LET n == Min(Len(data) - w, cf.Blk) IN
  /\ IF n = 0 THEN UNCHANGED <<table, idx, w>>
     ELSE LET r == ProcSeg(TI, data, w - cf.il + 1, w + n) IN
          /\ table' = r.t /\ idx' = r.i
          /\ w' = w + n
  /\ Apply([op |-> "parsenil", n |-> n, err |-> IF n = 0 THEN "empty" ELSE ""], [op |-> "parsenil"], [n |-> n])
  /\ UNCHANGED <<data, off, cf>>

(* shiftOffsets for one bucket: entries from the rotation index to the end, *)
(* then from the start to the index; keep pos >= delta, re-based            *)
ShiftBucket(bk, j, delta) ==
  LET order == [n \in 1..cf.bs |-> bk[((j + n - 1) % cf.bs) + 1]]
      keep  == SelectSeq(order, LAMBDA en : en[1] >= delta)
      moved == [n \in 1..Len(keep) |-> <<keep[n][1] - delta, keep[n][2]>>]
      i     == Len(moved)
  IN [b |-> [n \in 1..3 |-> IF n <= i THEN moved[n] ELSE IF n <= cf.bs THEN E0 ELSE bk[n]],
      i |-> IF i >= cf.bs THEN 0 ELSE i]

DoShrink ==
  LET delta == w - cf.S IN
  /\ IF delta <= 0 THEN UNCHANGED <<data, w, off, table, idx>>
     ELSE /\ data' = SubSeq(data, delta + 1, Len(data))
          /\ w' = cf.S /\ off' = off + delta
          /\ table' = [s \in 0..3 |-> IF s < NSlots THEN ShiftBucket(table[s], idx[s], delta).b ELSE table[s]]
          /\ idx' = [s \in 0..3 |-> IF s < NSlots THEN ShiftBucket(table[s], idx[s], delta).i ELSE idx[s]]
  /\ Apply([op |-> "shrink", delta |-> Max(delta, 0)], [op |-> "shrink"], [delta |-> Max(delta, 0)])
  /\ UNCHANGED cf

DoReset ==
  \E d \in {<<>>} \cup { x \in Bytes(3) : Len(x) = 3 } :
    /\ Len(st.inp) > 0
    /\ IF Len(d) > cf.B
       THEN /\ UNCHANGED <<data, w, off, table, idx>>
            /\ Apply([op |-> "reset", data |-> d, cap |-> 0, err |-> "oversize"], [op |-> "reset", data |-> d, cap |-> 0], [err |-> "oversize"])
       ELSE /\ data' = d /\ w' = 0 /\ off' = 0 /\ table' = EmptyT /\ idx' = EmptyI
            /\ Apply([op |-> "reset", data |-> d, cap |-> 0, err |-> ""], [op |-> "reset", data |-> d, cap |-> 0], [err |-> ""])
    /\ UNCHANGED cf

Next == DoWrite \/ DoParse \/ DoParseNil \/ DoShrink \/ DoReset
Spec == Init /\ [][Next]_vars

(* ---- properties ---- *)
Refines == [][PWhy(st, ev', {}) = {}]_vars

BucketSound ==
  \A s \in 0..NSlots - 1 : \A k \in 1..cf.bs :
    LET en == table[s][k] IN
    en = E0 \/ (en[1] + cf.il <= Len(data) /\ Gram(data, en[1]) = en[2] /\ Slot(en[2]) = s)
IdxRange == \A s \in 0..NSlots - 1 : idx[s] \in 0..cf.bs - 1
ResetClean == (ev.op = "reset" /\ ev.err = "") => (table = EmptyT /\ idx = EmptyI)
AbsInv ==
  /\ data = SubSeq(st.inp, st.off0 + 1, Len(st.inp))
  /\ off = st.off0 /\ off + w = st.w
  /\ Len(data) <= cf.B
Inv == BucketSound /\ IdxRange /\ ResetClean /\ AbsInv /\ PStateOk(st)

(* history output: every transition in the small scopes, a random sample    *)
(* (one in EmitEvery) in the large ones - the model check itself always     *)
(* covers the whole scope                                                    *)
Emit == EmitOps => ((EmitEvery = 1 \/ RandomElement(1..EmitEvery) = 1) => PrintT(<<"VERIF_OPS", ToJson(ops')>>))
=============================================================================
