------------------------------ MODULE SortPrims ------------------------------
(***************************************************************************)
(* Implementation-shaped model of the two sorting fall-backs of the rank   *)
(* sort (suffix/trsort.go): trInsertionSort (groups up to the size         *)
(* threshold) and trHeapSort (when the recursion limit of the introsort is *)
(* used up; Knuth's Algorithm H, steps H2-H8, followed by the marking      *)
(* pass).  Both order a slice sa of suffix indices by the key isaD[x] and  *)
(* mark, by bitwise complement, every entry whose key equals the key of    *)
(* the entry behind it ("lower equal values must be bitwise negated") -    *)
(* this is how trIntroSort finds the groups that are still tied.           *)
(*                                                                         *)
(* Scope: every key assignment of n <= N entries with keys 0..KMax (the    *)
(* entries are 0..n-1 in every initial order of their keys, which is all   *)
(* inputs up to renaming).  One initial state per (n, keys, function);     *)
(* the step runs the transcription.  Contract (Inv): the result is a       *)
(* permutation of the input, keys ascend, an entry is complemented exactly *)
(* when the next entry has the same key.  Variant "siblingslip" is a       *)
(* sift-down that never looks at the last heap entry as right sibling      *)
(* (seeded change C12-m4): refuted from n = 5 on.                          *)
(*                                                                         *)
(* Binding: every initial state is replayed into the real functions        *)
(* through the verif export VerifTrSortPrim; the resulting slice is        *)
(* compared with the model's entry by entry (DRIFT) and judged by the      *)
(* contract (rule DRIFT09.sortprim).                                       *)
(***************************************************************************)
EXTENDS Integers, Sequences, FiniteSets, Json, TLC

CONSTANTS N, KMax, Variant, EmitOps

VARIABLES n, key, fn, phase, sa
vars == <<n, key, fn, phase, sa>>

Neg(x) == -x - 1
Dec(x) == IF x < 0 THEN -x - 1 ELSE x

Init ==
  /\ n \in 2..N
  /\ key \in [0..n - 1 -> 0..KMax]
  /\ fn \in {"heap", "insertion"}
  /\ phase = "pre"
  /\ sa = [i \in 0..n - 1 |-> i]

(* ---- trHeapSort ---- *)
RECURSIVE Sift(_, _, _, _, _)
Sift(f, i, r, y, k) ==          \* H4-H7 from position i; returns f with k placed (H8)
  LET j == 2 * i + 1 IN
  IF j > r THEN [f EXCEPT ![i] = k]
  ELSE LET p0 == f[j]
           u0 == key[p0]
           right == IF Variant = "siblingslip" THEN j + 1 < r ELSE j < r
           useR == right /\ u0 < key[f[j + 1]]
           j1 == IF useR THEN j + 1 ELSE j
           p  == f[j1]
           u  == key[p]
       IN IF y >= u THEN [f EXCEPT ![i] = k]
          ELSE Sift([f EXCEPT ![i] = p], j1, r, y, k)

RECURSIVE Heap(_, _, _)
Heap(f, l, r) ==
  IF l > 0
  THEN LET k == f[l - 1] IN Heap(Sift(f, l - 1, r, key[k], k), l - 1, r)
  ELSE LET k  == f[r]
           f1 == [f EXCEPT ![r] = f[0]]
           r1 == r - 1
       IN IF r1 = 0 THEN [f1 EXCEPT ![0] = k]
          ELSE Heap(Sift(f1, 0, r1, key[k], k), 0, r1)

RECURSIVE Mark(_, _, _, _)
Mark(f, i, k, x) ==              \* i: index into sa[1:], k / x: previous entry and its key
  IF i >= n - 1 THEN f
  ELSE LET l == f[i + 1]
           y == key[l]
       IN Mark(IF x = y THEN [f EXCEPT ![i] = Neg(k)] ELSE f, i + 1, l, y)

HeapSort(f) == IF n < 2 THEN f ELSE LET g == Heap(f, n \div 2, n - 1) IN Mark(g, 0, g[0], key[g[0]])

(* ---- trInsertionSort ---- *)
RECURSIVE Back(_, _, _)
Back(f, j, u) ==                 \* the `loop`: returns <<f, j>> at the break
  IF j < 0 THEN <<f, j>>
  ELSE LET sv == f[j] IN
       IF sv < 0 THEN Back(f, j - 1, u)                      \* inner loop skips marked entries
       ELSE LET r == u - key[sv] IN
            IF r >= 0 THEN <<IF r = 0 THEN [f EXCEPT ![j] = Neg(sv)] ELSE f, j>>
            ELSE Back(f, j - 1, u)

RECURSIVE Ins(_, _)
Ins(f, i) ==
  IF i >= n THEN f
  ELSE LET t  == f[i]
           b  == Back(f, i - 1, key[t])
           g  == b[1]
           j  == b[2] + 1
           h  == IF j < i THEN [x \in 0..n - 1 |-> IF x = j THEN t ELSE IF x > j /\ x <= i THEN g[x - 1] ELSE g[x]] ELSE g
       IN Ins(h, i + 1)

Run == IF fn = "heap" THEN HeapSort(sa) ELSE Ins(sa, 1)

Step == phase = "pre" /\ sa' = Run /\ phase' = "post" /\ UNCHANGED <<n, key, fn>>
Done == phase = "post" /\ UNCHANGED vars
Next == Step \/ Done
Spec == Init /\ [][Next]_vars

Contract(f) ==
  /\ { Dec(f[i]) : i \in 0..n - 1 } = 0..n - 1
  /\ \A i \in 0..n - 2 : key[Dec(f[i])] <= key[Dec(f[i + 1])]
  /\ \A i \in 0..n - 2 : (f[i] < 0) <=> (key[Dec(f[i])] = key[Dec(f[i + 1])])
  /\ f[n - 1] >= 0
Inv == phase = "post" => Contract(sa)

Emit == (EmitOps /\ phase = "pre") =>
          LET r == Run IN
          PrintT(<<"VERIF_OPS", ToJson(<<[op |-> "sortprim", fn |-> fn, keys |-> [i \in 1..n |-> key[i - 1]],
                                          expect |-> [sa_after |-> [i \in 1..n |-> r[i - 1]]]]>>)>>)
=============================================================================
