---------------------------- MODULE DecoderBufMC ----------------------------
(***************************************************************************)
(* Design-level model checking and history generation for DecoderBuffer.   *)
(*                                                                         *)
(* The implementation-shaped model (DecoderBufImpl) is run under every     *)
(* interleaving of the public calls with every small argument; TLC checks  *)
(*   - Refines:   every step of the code's design is allowed by the        *)
(*                envelope (action property, Why = {}),                    *)
(*   - AbsInv:    the abstraction function relates both states,            *)
(*   - ExactlyOnce: the bytes handed out so far are exactly the prefix of  *)
(*                the reference expansion up to the read position (C04),   *)
(*   - Retention / NoUnreadLoss (C04), OffExact (C17).                     *)
(* With the history variable `ops` hidden behind VIEW and the action       *)
(* constraint Emit, the same run prints one shortest call history for      *)
(* every transition of the bounded state graph (transition cover), which   *)
(* the Go driver replays into the real code.                               *)
(***************************************************************************)
EXTENDS DecoderBuf, DecoderBufImpl, Json

CONSTANTS Ws,        \* set of window sizes
          Slack,     \* set of BufferSize - WindowSize values
          Alpha,     \* byte alphabet
          MaxHist,   \* bound on bytes written per history
          MaxWrite,  \* longest Write argument
          MaxM, MaxO,\* WriteMatch argument ranges 0..MaxM, 0..MaxO
          MaxSeqs,   \* sequences per block
          MaxLit,    \* LitLen range 0..MaxLit, and block literals up to MaxLit*MaxSeqs+1
          Grow,      \* BOOLEAN: model append's capacity doubling
          EmitOps    \* BOOLEAN: print histories (generation mode)

VARIABLES ist,  \* implementation-shaped state
          st,   \* abstract (envelope) state
          ev,   \* last event
          outs, \* ghost: all bytes handed out by Read/WriteTo
          ops   \* history of calls (generation only; hidden by VIEW)

vars == <<ist, st, ev, outs, ops>>
View == <<ist, st, outs>>

RECURSIVE SeqsUpTo(_, _)
SeqsUpTo(S, n) == IF n = 0 THEN {<<>>} ELSE SeqsUpTo(S, n - 1) \cup [1..n -> S]

Bytes(n) == SeqsUpTo(Alpha, n)
SeqRecs == { <<lit, m, o, 0>> : lit \in 0..MaxLit, m \in 0..MaxM, o \in 0..MaxO }

CallsWByte   == [op : {"wbyte"}, c : Alpha]
CallsWrite   == [op : {"dwrite"}, p : Bytes(MaxWrite)]
CallsWMatch  == [op : {"wmatch"}, m : 0..MaxM, o : 0..MaxO]
CallsWBlock  == [op : {"wblock"}, seqs : SeqsUpTo(SeqRecs, MaxSeqs), lits : Bytes(MaxLit * MaxSeqs + 1)]
CallsRead    == [op : {"read"}, max : 1..3]
CallsWriteTo == [op : {"writeto"}, accept : {-1, 0, 1}, fail : BOOLEAN]
CallsReset   == [op : {"dreset"}]

Init ==
  /\ \E W \in Ws, s \in Slack :
       /\ ist = IInit(W, W + s)
       /\ st = DInit(W)
       /\ ops = <<[op |-> "begin", W |-> W, B |-> W + s]>>
  /\ ev = [op |-> "begin"]
  /\ outs = <<>>

Handed(e) == IF e.op = "read" THEN e.out
             ELSE IF e.op = "writeto" THEN SubSeq(e.offered, 1, e.accepted)
             ELSE <<>>

Do(c) ==
    LET r == IStep(ist, c, Grow) IN
    /\ Len(st.hist) + (IF c.op = "dwrite" THEN Len(c.p) ELSE 0) <= MaxHist
    /\ ist' = r.st
    /\ ev' = r.ev
    /\ st' = Eff(st, r.ev)
    /\ outs' = IF c.op = "dreset" THEN <<>> ELSE outs \o Handed(r.ev)
    /\ ops' = IF EmitOps THEN Append(ops, c) ELSE ops

(* One disjunct per kind of call: TLC's simulator first picks a disjunct,  *)
(* so random walks are not dominated by the many WriteBlock arguments.     *)
WByte   == \E c \in CallsWByte   : Do(c)
Write   == \E c \in CallsWrite   : Do(c)
WMatch  == \E c \in CallsWMatch  : Do(c)
WBlock  == \E c \in CallsWBlock  : Do(c)
Read    == \E c \in CallsRead    : Do(c)
WriteTo == \E c \in CallsWriteTo : Do(c)
Reset   == \E c \in CallsReset   : Do(c)
Next == WByte \/ Write \/ WMatch \/ WBlock \/ Read \/ WriteTo \/ Reset

(* Random-walk generation (tlc -simulate): TLC's simulator chooses          *)
(* uniformly among successor states, which WriteBlock's many arguments      *)
(* would dominate; so the walk first draws the kind of call, then the      *)
(* arguments.                                                              *)
KindSets == <<CallsWByte, CallsWrite, CallsWMatch, CallsWMatch, CallsWBlock, CallsWBlock,
              CallsRead, CallsRead, CallsWriteTo, CallsReset>>
(* (The filters mention a variable so that TLC does not evaluate the       *)
(* random choice once as a constant.)                                      *)
(* Up to four argument tuples are drawn and the first one the model        *)
(* accepts is taken, so that walks reach deep buffer states instead of     *)
(* bouncing off argument validation (rejected calls still occur).          *)
(* Bound variables (\E over a singleton) are used because TLC re-evaluates  *)
(* a LET definition at every use, which would draw a new random value each *)
(* time.                                                                   *)
WalkNext ==
  \E i \in {RandomElement({j \in 1..Len(KindSets) : Len(ops) >= 0})} :
    LET all == KindSets[i]
        good(x) == IStep(ist, x, Grow).ev.err = ""
    IN \E c1 \in {RandomElement(all)} : \E c2 \in {RandomElement(all)} :
       \E c3 \in {RandomElement(all)} : \E c4 \in {RandomElement(all)} :
         Do(IF good(c1) THEN c1 ELSE IF good(c2) THEN c2 ELSE IF good(c3) THEN c3 ELSE c4)
WalkSpec == Init /\ [][WalkNext]_vars

Spec == Init /\ [][Next]_vars

Bound == Len(st.hist) <= MaxHist

(* ---- properties ---- *)
Refines == [][Why(st, ev') = {}]_vars

AbsInv ==
  /\ ist.data = SubSeq(st.hist, st.lo + 1, Len(st.hist))
  /\ ist.r = st.rd - st.lo
  /\ ist.W = st.W
OffExact     == ist.off = Len(st.hist)                                  \* C17
ExactlyOnce  == outs = SubSeq(st.hist, 1, st.rd)                        \* C04
Retention    == Len(ist.data) >= Min(ist.W, Len(st.hist))               \* C04
NoUnreadLoss == st.lo <= st.rd /\ st.rd <= Len(st.hist)                 \* C04
Inv == AbsInv /\ OffExact /\ ExactlyOnce /\ Retention /\ NoUnreadLoss /\ StateOk(st)

(* ---- generation ---- *)
Emit == EmitOps => PrintT(<<"VERIF_OPS", ToJson(ops')>>)
=============================================================================
