------------------------------- MODULE Config -------------------------------
(***************************************************************************)
(* Specification of the life cycle of parser configuration values          *)
(* (properties C20 and the NewParser clause of C16).                       *)
(*                                                                         *)
(* Part 1 - envelope rules over recorded events.  One "cfg" event holds    *)
(* everything the code derived from one configuration value c of type      *)
(* `kind` (field values as decimal strings, string fields prefixed "s:"):  *)
(*   f        the fields of c                                              *)
(*   parsed   ParseJSON(json.Marshal(c))          into[k]  the same JSON   *)
(*   clone    c.Clone()                                    unmarshalled    *)
(*   d1, d2   SetDefaults applied once, twice              into type k     *)
(*   verify_err  Verify() of d1                                            *)
(*   new_err, reported, bufcfg   NewParser() of c and what the parser      *)
(*                               reports (ParserConfig, BufferConfig)      *)
(* and one "jsondoc" event holds ParseJSON of an arbitrary document.       *)
(* Which values Verify accepts is NOT specified here (rule 6 of DESIGN     *)
(* section 5): C16/C20 relate the code's own functions to each other.      *)
(*                                                                         *)
(* Part 2 - a model of SetDefaults / Verify (transcribed from lz.go,       *)
(* hash.go, bucket_hash.go, gsap.go, osap.go) over small integers, used    *)
(* by ConfigMC to check the design-level facts (defaults are idempotent,   *)
(* touch only zero fields, an accepted configuration satisfies what the    *)
(* parsers rely on) and to generate the boundary grid.                     *)
(***************************************************************************)
EXTENDS Integers, Sequences, FiniteSets, TLC

Kinds == {"HP", "BHP", "DHP", "BDHP", "BUP", "GSAP", "OSAP"}
BufNames == {"ShrinkSize", "BufferSize", "WindowSize", "BlockSize"}

Fld(e, f, dflt) == IF f \in DOMAIN e THEN e[f] ELSE dflt
IsZero(v) == v = "0" \/ v = "s:"

SameRec(a, b) == DOMAIN a = DOMAIN b /\ \A k \in DOMAIN a : a[k] = b[k]

CRules(e) ==
  CASE e.op = "cfg" ->
      LET f == e.f
          newDone == Fld(e, "new", "") = "done"
          newOk == newDone /\ Fld(e, "new_err", "x") = ""
      IN {
        <<"C20.json_roundtrip",
          /\ Fld(e, "marshal_err", "x") = "" /\ Fld(e, "parse_err", "x") = ""
          /\ Fld(e, "parsed_kind", "") = e.kind
          /\ SameRec(Fld(e, "parsed", <<>>), f)
          /\ "into" \in DOMAIN e /\ e.into[e.kind] = ""
          /\ SameRec(Fld(e, "into_self", <<>>), f)>>,
        <<"C20.json_reject",
          "into" \in DOMAIN e => \A k \in Kinds \ {e.kind} : e.into[k] = "err">>,
        <<"C20.clone_equal", e.clone_kind = e.kind /\ SameRec(e.clone, f)>>,
        <<"C20.clone_independent",
          SameRec(e.orig_after_clone_mutation, f) /\ SameRec(e.clone_after_orig_mutation, f)>>,
        <<"C20.defaults_idempotent", SameRec(e.d2, e.d1)>>,
        <<"C20.defaults_only_zero",
          /\ DOMAIN e.d1 = DOMAIN f
          /\ \A k \in DOMAIN f : ~IsZero(f[k]) => e.d1[k] = f[k]>>,
        <<"C16.new_iff_verify", newDone => ((e.new_err = "") <=> (e.verify_err = ""))>>,
        <<"C20.reported_config",
          newOk => /\ Fld(e, "reported_kind", "") = e.kind
                   /\ SameRec(Fld(e, "reported", <<>>), e.d1)
                   /\ SameRec(Fld(e, "bufcfg", <<>>), e.d1buf)
                   /\ \A k \in BufNames : e.d1buf[k] = e.d1[k]>>
      }
    [] e.op = "jsondoc" ->
      LET known == e.valid_json /\ e.has_type /\ e.doc_type \in Kinds IN {
        <<"C20.json_reject", ~known => e.err = "err">>,
        <<"C20.json_reject_into", \A k \in Kinds : (~known \/ e.doc_type # k) => e.into[k] = "err">>,
        <<"C20.json_type", e.err = "" => e.result_kind = e.doc_type>>
      }
    [] e.op = "panic"   -> { <<"C16.no_panic", FALSE>>, <<"C20.no_panic", FALSE>> }
    [] e.op = "timeout" -> { <<"C16.no_hang", FALSE>> }
    [] OTHER -> { <<"C00.unknown_op", FALSE>> }

CWhy(e) == { r[1] : r \in { x \in CRules(e) : ~x[2] } }

(***************************************************************************)
(* Part 2: model of SetDefaults and Verify over integers.                  *)
(* A configuration is a record with the four buffer fields and the fields  *)
(* of its kind.  KiB/MiB constants are parameters so that the model can be *)
(* scaled down (the real values are 64 KiB, 32 KiB, 8 MiB, 128 KiB).       *)
(***************************************************************************)
CONSTANTS DefWindow,   \* 8 MiB
          SmallBuf,    \* 64 KiB
          DefShrink,   \* 32 KiB
          DefBlock,    \* 128 KiB
          MaxSize      \* maxUint32 - 7

KindFields(kind) ==
  CASE kind \in {"HP", "BHP"}   -> {"InputLen", "HashBits"}
    [] kind \in {"DHP", "BDHP"} -> {"InputLen1", "HashBits1", "InputLen2", "HashBits2"}
    [] kind = "BUP"             -> {"InputLen", "HashBits", "BucketSize"}
    [] kind = "GSAP"            -> {"MinMatchLen"}
    [] kind = "OSAP"            -> {"MinMatchLen", "MaxMatchLen"}

Dflt(v, d) == IF v = 0 THEN d ELSE v

BufDefaults(c) ==
  LET w == Dflt(c.WindowSize, DefWindow)
      b == Dflt(c.BufferSize, w)
      s == IF c.ShrinkSize # 0 THEN c.ShrinkSize
           ELSE IF b < SmallBuf THEN b \div 2 ELSE DefShrink
  IN [c EXCEPT !.WindowSize = w, !.BufferSize = b, !.ShrinkSize = s,
               !.BlockSize = Dflt(c.BlockSize, DefBlock)]

SetDefaults(kind, c) ==
  LET b == BufDefaults(c) IN
  CASE kind \in {"HP", "BHP"} ->
         [b EXCEPT !.InputLen = Dflt(@, 3), !.HashBits = Dflt(@, 18)]
    [] kind \in {"DHP", "BDHP"} ->
         LET il1 == Dflt(b.InputLen1, 3) IN
         [b EXCEPT !.InputLen1 = il1, !.HashBits1 = Dflt(@, 18),
                   !.InputLen2 = Dflt(@, IF il1 < 5 THEN 6 ELSE 8), !.HashBits2 = Dflt(@, 18)]
    [] kind = "BUP" ->
         [b EXCEPT !.InputLen = Dflt(@, 3), !.HashBits = Dflt(@, 12), !.BucketSize = Dflt(@, 10)]
    [] kind = "GSAP" -> [b EXCEPT !.MinMatchLen = Dflt(@, 3)]
    [] kind = "OSAP" -> [b EXCEPT !.MinMatchLen = Dflt(@, 3), !.MaxMatchLen = Dflt(@, 273)]

BufVerify(c) ==
  /\ 1 <= c.BufferSize /\ c.BufferSize <= MaxSize
  /\ 0 <= c.ShrinkSize /\ c.ShrinkSize <= c.BufferSize
  /\ 0 <= c.WindowSize /\ c.WindowSize <= MaxSize
  /\ 1 <= c.BlockSize /\ c.BlockSize <= MaxSize

HashVerify(il, hb, cap) ==
  /\ 2 <= il /\ il <= 8
  /\ 0 <= hb /\ hb <= (IF 8 * il < cap THEN 8 * il ELSE cap)

Verify(kind, c) ==
  /\ BufVerify(c)
  /\ CASE kind \in {"HP", "BHP"} -> HashVerify(c.InputLen, c.HashBits, 24)
       [] kind \in {"DHP", "BDHP"} ->
            /\ HashVerify(c.InputLen1, c.HashBits1, 24)
            /\ HashVerify(c.InputLen2, c.HashBits2, 24)
            /\ c.InputLen1 < c.InputLen2
       [] kind = "BUP" -> HashVerify(c.InputLen, c.HashBits, 23) /\ 1 <= c.BucketSize /\ c.BucketSize <= 128
       [] kind = "GSAP" -> 2 <= c.MinMatchLen /\ c.MinMatchLen <= c.WindowSize
       [] kind = "OSAP" -> 2 <= c.MinMatchLen /\ c.MinMatchLen <= c.MaxMatchLen
=============================================================================
