SPECIFICATION TraceSpec
CONSTANTS
  DefWindow = 8388608
  SmallBuf = 65536
  DefShrink = 32768
  DefBlock = 131072
  MaxSize = 1073741824
POSTCONDITION Post
CHECK_DEADLOCK FALSE
