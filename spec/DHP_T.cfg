SPECIFICATION Spec
CONSTANTS
  Alpha = {0, 1}
  Scope = "thorough"
  MaxInp = 8
  MaxWrite = 3
  Variant = "code"
  EmitOps = TRUE
  Backward = FALSE
  EmitEvery = 300
INVARIANT Inv
PROPERTY Refines
ACTION_CONSTRAINT Emit
VIEW View
CHECK_DEADLOCK FALSE
