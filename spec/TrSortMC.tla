------------------------------ MODULE TrSortMC ------------------------------
(***************************************************************************)
(* Model check of the transcribed rank sort (TrSortImpl.tla) and source of *)
(* the inputs replayed into the real trSort.                               *)
(*                                                                         *)
(* Every rank string s of the scope (last symbol unique, as the last B*    *)
(* substring always is) with every size threshold of the scope is one      *)
(* initial state.  The arrays handed to trSort are built as the driver     *)
(* leaves them after the substring sort and the rank fill: suffixes        *)
(* ordered by their first symbol (ties by index), isa[x] = last index of   *)
(* x's group, and every maximal run of single-member groups encoded by its *)
(* negative length in the run's first slot.  The step runs TrSort.         *)
(*                                                                         *)
(* Checked: no read outside the arrays (NoOOB), the ranks are the ranks of *)
(* the suffixes of s (Ranks), every round starts from ranks that satisfy    *)
(* the contract of                                                          *)
(* TrSortRounds (RoundsOK).  Small thresholds force the pivot / partition /*)
(* heap-sort / tandem-repeat paths on short inputs; the budget             *)
(* (ilog2(n)*2/3 chances, n per chance) runs out on many of them.          *)
(***************************************************************************)
EXTENDS TrSortImpl, Json

CONSTANTS MaxM, K, Thrs, EmitOps

VARIABLES s, thr, phase, res
vars == <<s, thr, phase, res>>

RECURSIVE SeqsUpTo(_, _)
SeqsUpTo(S, n) == IF n = 0 THEN {<<>>} ELSE SeqsUpTo(S, n - 1) \cup [1..n -> S]

m == Len(s)
Suf(x) == SubSeq(s, x + 1, m)
SeqLess(u, v) == LET RECURSIVE lt(_)
                     lt(k) == IF k > Len(u) THEN k <= Len(v) ELSE IF k > Len(v) THEN FALSE
                              ELSE IF u[k] # v[k] THEN u[k] < v[k] ELSE lt(k + 1)
                 IN lt(1)
TrueRank(x) == Cardinality({ y \in 0..m - 1 : SeqLess(Suf(y), Suf(x)) })

(* index of x in the order by (first symbol, index) *)
Pos0(x) == Cardinality({ y \in 0..m - 1 : s[y + 1] < s[x + 1] \/ (s[y + 1] = s[x + 1] /\ y < x) })
Isa0 == [x \in 0..m - 1 |-> Cardinality({ y \in 0..m - 1 : s[y + 1] <= s[x + 1] }) - 1]
Single(x) == \A y \in 0..m - 1 : y # x => s[y + 1] # s[x + 1]
ElemAt(i) == CHOOSE x \in 0..m - 1 : Pos0(x) = i
RunLen(i) ==      \* length of the run of single-member groups starting at index i
  LET RECURSIVE rl(_)
      rl(j) == IF j < m /\ Single(ElemAt(j)) THEN 1 + rl(j + 1) ELSE 0
  IN rl(i)
Sa0 == [i \in 0..m - 1 |->
          IF Single(ElemAt(i)) /\ (i = 0 \/ ~Single(ElemAt(i - 1))) THEN -RunLen(i) ELSE ElemAt(i)]

Init ==
  /\ s \in { x \in SeqsUpTo(0..K - 1, MaxM) : Len(x) >= 2 /\ \A i \in 1..Len(x) - 1 : x[i] # x[Len(x)] }
  /\ thr \in Thrs
  /\ phase = "pre"
  /\ res = <<>>

Step == phase = "pre" /\ res' = TrSort(Sa0, Isa0, thr) /\ phase' = "post" /\ UNCHANGED <<s, thr>>
Done == phase = "post" /\ UNCHANGED vars
Next == Step \/ Done
Spec == Init /\ [][Next]_vars

NoOOB == phase = "post" => (\A x \in 0..m - 1 : res.isa[x] # OOB /\ res.sa[x] # OOB)
Ranks == phase = "post" => \A x \in 0..m - 1 : res.isa[x] = TrueRank(x)
RoundsOK ==
  phase = "post" =>
    \A k \in 1..Len(res.rounds) :
      LET f == res.rounds[k]
          d == 2 ^ (k - 1)
      IN /\ \A x, y \in 0..m - 1 : f[x] < f[y] => SeqLess(Suf(x), Suf(y))
         /\ \A x \in 0..m - 1 : f[x] = Cardinality({ y \in 0..m - 1 : f[y] <= f[x] }) - 1
         /\ \A x, y \in 0..m - 1 :
              (x # y /\ f[x] = f[y]) => (x + d < m /\ y + d < m /\ SubSeq(s, x + 1, x + d) = SubSeq(s, y + 1, y + d))
Inv == NoOOB /\ Ranks /\ RoundsOK

Emit == (EmitOps /\ phase = "pre") =>
          LET r == TrSort(Sa0, Isa0, thr) IN
          PrintT(<<"VERIF_OPS", ToJson(<<[op |-> "trsort", s |-> s, thr |-> thr,
                                          sa |-> [i \in 1..m |-> Sa0[i - 1]], isa |-> [i \in 1..m |-> Isa0[i - 1]],
                                          expect |-> [sa_after |-> [i \in 1..m |-> r.sa[i - 1]],
                                                      isa_after |-> [i \in 1..m |-> r.isa[i - 1]],
                                                      rounds |-> [k \in 1..Len(r.rounds) |-> [i \in 1..m |-> r.rounds[k][i - 1]]]]]>>)>>)
=============================================================================
