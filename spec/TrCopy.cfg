SPECIFICATION Spec
CONSTANTS
  MaxM = 7
  K = 3
  Variant = "code"
  EmitOps = FALSE
INVARIANT Inv
CHECK_DEADLOCK FALSE
