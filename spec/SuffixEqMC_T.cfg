SPECIFICATION Spec
CONSTANTS
  Alpha = {0, 1, 2}
  MaxN = 6
  EmitOps = FALSE
INVARIANT Inv
CHECK_DEADLOCK FALSE
