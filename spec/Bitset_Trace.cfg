SPECIFICATION TraceSpec
POSTCONDITION Post
CHECK_DEADLOCK FALSE
