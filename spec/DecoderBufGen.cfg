SPECIFICATION Spec
CONSTANTS
  Ws = {0, 1, 2, 3}
  Slack = {1, 2, 3}
  Alpha = {0, 1}
  MaxHist = 12
  MaxWrite = 3
  MaxM = 4
  MaxO = 4
  MaxSeqs = 2
  MaxLit = 1
  Grow = FALSE
  EmitOps = TRUE
INVARIANT Inv
ACTION_CONSTRAINT Emit
CONSTRAINT Bound
VIEW View
CHECK_DEADLOCK FALSE
