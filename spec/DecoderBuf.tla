----------------------------- MODULE DecoderBuf -----------------------------
(***************************************************************************)
(* Envelope specification of lz.DecoderBuffer (decoder_buffer.go).         *)
(*                                                                         *)
(* Abstract state (a record, so that the same definitions serve the model  *)
(* checker and the trace checker):                                         *)
(*   hist  all bytes written since Init/Reset = the reference expansion    *)
(*   lo    absolute stream offset of Data[0]   (bytes discarded so far)    *)
(*   rd    absolute read position                                          *)
(*   W     window size (as reported by the object after Init)              *)
(* Abstraction function from the Go object (checked on every event):       *)
(*   Data = SubSeq(hist, lo+1, Len(hist))   R = rd - lo   Off = Len(hist)  *)
(*                                                                         *)
(* An event e is one public call observed at its return: operation,        *)
(* arguments, results and the exported fields Data, R, Off afterwards.     *)
(* Why(st, e) is the set of names of the envelope rules that e breaks in   *)
(* state st; Eff(st, e) is the abstract successor.  The envelope says only *)
(* what properties C04, C05, C17 say: how much old data is discarded,      *)
(* when the buffer refuses for lack of space and how far it grows are      *)
(* left open.                                                              *)
(***************************************************************************)
EXTENDS LZ77

DInit(W) == [hist |-> <<>>, lo |-> 0, rd |-> 0, W |-> W]

NoErr(e) == e.err = ""

(* A match (m, o) is malformed for history h and window W.  The retention  *)
(* invariant makes Min(W, bytes buffered) equal to Min(W, Len(h)).         *)
BadMatch(h, m, o, W) == (o = 0 /\ m > 0) \/ o > Min(W, Len(h))

(* Sequence s is malformed when `rem` literal bytes remain.                *)
BadSeq(h, s, rem, W) ==
  \/ Lit(s) > rem
  \/ (Off(s) = 0 /\ MLen(s) > 0)
  \/ Off(s) > Min(W, Len(h) + Lit(s))

(* Index of the first malformed sequence of the block (Len(seqs)+1 if      *)
(* none), evaluated along the reference expansion.                         *)
(* Only the first k sequences (those the call reports as consumed) are     *)
(* ever expanded: an attacker-sized MatchLen that the code refused must    *)
(* not be expanded by the oracle either.                                   *)
RECURSIVE FirstBadAcc(_, _, _, _, _, _, _)
FirstBadAcc(h, li, seqs, lits, i, k, W) ==
  IF i > k THEN i
  ELSE LET s == seqs[i]
       IN IF BadSeq(h, s, Len(lits) - li, W) THEN i
          ELSE LET h1 == h \o SubSeq(lits, li + 1, li + Lit(s))
               IN FirstBadAcc(Copy(h1, Off(s), MLen(s)), li + Lit(s), seqs, lits, i + 1, k, W)
FirstBad(h, seqs, lits, k, W) == FirstBadAcc(h, 0, seqs, lits, 1, k, W)

IsWriteOp(e) == e.op \in {"wbyte", "dwrite", "wmatch", "wblock"}
IsReadOp(e)  == e.op \in {"read", "writeto"}
HasState(e)  == IsWriteOp(e) \/ IsReadOp(e) \/ e.op = "dreset"

(* Is the block prefix reported as consumed well defined?                  *)
BlockArgsOk(st, e) ==
  /\ e.k \in 0..Len(e.seqs)
  /\ e.l \in 0..Len(e.lits)
  /\ \A i \in 1..Len(e.seqs) : IsSeqRec(e.seqs[i])
  /\ ExpandKDefined(st.hist, e.seqs, e.lits, e.k, e.l)

(* The history after the event, taking the reported results for what the   *)
(* envelope leaves open (did the call succeed, how far did it get).        *)
NewHist(st, e) ==
  CASE e.op = "wbyte"  -> IF NoErr(e) THEN Append(st.hist, e.c) ELSE st.hist
    [] e.op = "dwrite" -> IF NoErr(e) THEN st.hist \o e.p ELSE st.hist
    [] e.op = "wmatch" -> IF NoErr(e) /\ ~BadMatch(st.hist, e.m, e.o, st.W)
                          THEN Copy(st.hist, e.o, e.m) ELSE st.hist
    [] e.op = "wblock" -> IF BlockArgsOk(st, e)
                          THEN ExpandK(st.hist, e.seqs, e.lits, e.k, e.l) ELSE st.hist
    [] e.op = "dreset" -> <<>>
    [] OTHER           -> st.hist

Eff(st, e) ==
  IF ~HasState(e) THEN st
  ELSE LET h  == NewHist(st, e)
           lo == Len(h) - Len(e.data)
       IN [hist |-> h, lo |-> lo, rd |-> lo + e.r, W |-> st.W]

(***************************************************************************)
(* Rules.  Each is <<name, holds>>.                                        *)
(***************************************************************************)
StateRules(st, e) ==
  LET h  == NewHist(st, e)
      n  == Len(e.data)
      lo == Len(h) - n
      rd == lo + e.r
  IN {
    <<"C04.data_suffix", n <= Len(h) /\ e.data = LastN(h, n)>>,
    <<"C04.retention",   n >= Min(st.W, Len(h))>>,
    <<"C04.r_range",     e.r >= 0 /\ e.r <= n>>,
    <<"C17.off",         e.off = Len(h)>>
  } \cup
  (IF IsWriteOp(e) THEN {
    <<"C04.unread_kept", lo >= st.lo /\ lo <= st.rd>>,
    <<"C04.r_pos",       rd = st.rd>>
   } ELSE IF IsReadOp(e) THEN {
    <<"C04.read_keeps_data", lo = st.lo>>
   } ELSE {})

OpRules(st, e) ==
  CASE e.op = "wbyte" -> {
      <<"C04.byte_range", e.c \in 0..255>> }
    [] e.op = "dwrite" -> {
      <<"C17.write_n", e.n = IF NoErr(e) THEN Len(e.p) ELSE 0>> }
    [] e.op = "wmatch" -> {
      <<"C05.reject_match", BadMatch(st.hist, e.m, e.o, st.W) => ~NoErr(e)>>,
      <<"C17.write_n",      e.n = IF NoErr(e) THEN e.m ELSE 0>> }
    [] e.op = "wblock" ->
      IF ~BlockArgsOk(st, e) THEN { <<"C05.atomic", FALSE>> }
      ELSE LET fb == FirstBad(st.hist, e.seqs, e.lits, e.k, st.W)
               lk == LitUpTo(e.seqs, e.k)
           IN {
        <<"C05.reject_seq", e.k < fb>>,
        <<"C17.k",          NoErr(e) => e.k = Len(e.seqs)>>,
        <<"C17.l",          IF NoErr(e) THEN e.l = Len(e.lits)
                            ELSE IF e.k < Len(e.seqs) THEN e.l = lk
                            ELSE e.l >= lk>>,
        <<"C17.n",          e.n = Len(NewHist(st, e)) - Len(st.hist)>>,
        (* C05: a sequence is written atomically - when the call stops in    *)
        (* front of sequence k+1 nothing of that sequence has been consumed, *)
        (* not even its literals                                             *)
        <<"C05.nothing_of_failing", (~NoErr(e) /\ e.k < Len(e.seqs)) => e.l = lk>>,
        <<"C05.block_untouched", e.untouched>> }
    [] e.op = "read" -> {
      <<"C04.read_out", /\ Len(e.out) = Min(e.max, Len(st.hist) - st.rd)
                        /\ e.out = SubSeq(st.hist, st.rd + 1, st.rd + Len(e.out))
                        /\ e.n = Len(e.out)>>,
      <<"C04.r_pos",    e.r + (Len(st.hist) - Len(e.data)) = st.rd + Len(e.out)>> }
    [] e.op = "writeto" -> {
      <<"C04.read_out", /\ e.offered = SubSeq(st.hist, st.rd + 1, Len(st.hist))
                        /\ e.accepted \in 0..Len(e.offered)
                        /\ e.n = e.accepted>>,
      <<"C04.r_pos",    e.r + (Len(st.hist) - Len(e.data)) = st.rd + e.accepted>>,
      <<"C18.err_is_writers", e.err = e.werr>> }
    [] e.op = "dreset" -> {
      <<"C04.reset", e.data = <<>> /\ e.r = 0>>,
      <<"C17.off",   e.off = 0>> }
    [] e.op = "panic"    -> { <<"C05.no_panic", FALSE>> }
    [] e.op = "timeout"  -> { <<"C06.timeout", FALSE>> }
    [] OTHER -> { <<"C00.unknown_op", FALSE>> }

Rules(st, e) == OpRules(st, e) \cup (IF HasState(e) /\ e.op # "dreset" THEN StateRules(st, e) ELSE {})

Why(st, e) == { r[1] : r \in { x \in Rules(st, e) : ~x[2] } }
Ok(st, e)  == Why(st, e) = {}

(* Type correctness / basic invariants of the abstract state.              *)
StateOk(st) ==
  /\ st.lo >= 0 /\ st.lo <= st.rd /\ st.rd <= Len(st.hist)
  /\ Len(st.hist) - st.lo >= Min(st.W, Len(st.hist))
=============================================================================
