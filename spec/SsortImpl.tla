------------------------------ MODULE SsortImpl ------------------------------
(***************************************************************************)
(* Implementation-shaped model of the B* substring sort of suffix/ssort.go *)
(* (ssorter), statement by statement, as pure operators:                   *)
(*                                                                         *)
(*   Sub / SubNeg        substring, substringK, substringNeg: the B*       *)
(*                       substring of index k from offset d, i.e.          *)
(*                       t[p[k]+d .. p[k+1]+2)                             *)
(*   InsertSortNeg       insertion sort that complements an entry equal to *)
(*                       the one it is placed behind                       *)
(*   HeapSortS           Algorithm H on substrings, then InsertSortNeg     *)
(*   MedianOf3, Exchange, PartitionS   three-way partition on the byte at  *)
(*                       offset d (equal bytes parked at both ends)        *)
(*   FilterStringEnds    substrings that end at offset d go to the front,  *)
(*                       complemented except the first                     *)
(*   IntroLoop           introSortLoop (multikey introsort, depth limit)   *)
(*   Ssort               ssort(f, b, lastIndex): the last B* substring of  *)
(*                       the text is kept out and inserted by binary       *)
(*                       search afterwards                                 *)
(*   PlaceAndSort        the driver around it (k1.go): B* indices into     *)
(*                       their buckets, ssort per bucket; RankFill: ranks  *)
(*                       of the substrings and the run-length encoding of  *)
(*                       sorted stretches                                  *)
(*                                                                         *)
(* a: function 0..m-1 (sa[:m]); t: the text (1-based sequence); p: B*      *)
(* positions in text order (function 0..m-1).  OOB marks a read outside.   *)
(***************************************************************************)
EXTENDS Integers, Sequences, FiniteSets, TLC

OOBs == -777777
SNeg(x) == -x - 1
AbsNeg(x) == IF x < 0 THEN -x - 1 ELSE x
RECURSIVE SLog2(_)
SLog2(x) == IF x <= 0 THEN -1 ELSE IF x = 1 THEN 0 ELSE 1 + SLog2(x \div 2)
SSwap(a, i, j) == [a EXCEPT ![i] = a[j], ![j] = a[i]]

PAt(p, k) == IF k \in DOMAIN p THEN p[k] ELSE OOBs
TAt(t, i) == IF i >= 0 /\ i < Len(t) THEN t[i + 1] ELSE OOBs        \* 0-based byte

(* t[f:b] as a sequence; nil when f >= b *)
SubK(t, p, k, d) ==
  LET b == PAt(p, k + 1) + 2
      f == PAt(p, k) + d
  IN IF f >= b THEN <<>> ELSE SubSeq(t, f + 1, b)

Cmp(x, y) ==                     \* bytes.Compare
  LET RECURSIVE c(_)
      c(k) == IF k > Len(x) THEN (IF k > Len(y) THEN 0 ELSE -1)
              ELSE IF k > Len(y) THEN 1
              ELSE IF x[k] < y[k] THEN -1 ELSE IF x[k] > y[k] THEN 1 ELSE c(k + 1)
  IN c(1)

(* ---- insertSortNeg(f, b, d) ---- *)
RECURSIVE ISBack(_, _, _, _, _, _, _, _)
ISBack(a, t, p, d, f, i, j, y) ==            \* returns <<a, j>> at the break (j = f-1 when it ran out)
  IF j < f THEN <<a, j>>
  ELSE LET r == Cmp(SubK(t, p, AbsNeg(a[j]), d), y) IN
       IF r < 0 THEN <<a, j>>
       ELSE IF r = 0 THEN <<[a EXCEPT ![i] = SNeg(a[i])], j>>
       ELSE ISBack(a, t, p, d, f, i, j - 1, y)

RECURSIVE ISLoop(_, _, _, _, _, _, _)
ISLoop(a, t, p, d, f, b, i) ==
  IF i >= b THEN a
  ELSE LET y  == SubK(t, p, AbsNeg(a[i]), d)
           r  == ISBack(a, t, p, d, f, i, i - 1, y)
           a1 == r[1]
           j  == r[2] + 1
       IN IF j = i THEN ISLoop(a1, t, p, d, f, b, i + 1)
          ELSE LET c  == a1[i]
                   a2 == [x \in DOMAIN a1 |-> IF x = j THEN c ELSE IF x > j /\ x <= i THEN a1[x - 1] ELSE a1[x]]
               IN ISLoop(a2, t, p, d, f, b, i + 1)
InsertSortNeg(a, t, p, f, b, d) == ISLoop(a, t, p, d, f, b, f + 1)

(* ---- heapSort(f, b, d): slice index i is f + i ---- *)
RECURSIVE HSSift(_, _, _, _, _, _, _, _, _)
HSSift(a, t, p, d, lo, i, r, x, k) ==
  LET j == 2 * i + 1 IN
  IF j > r THEN [a EXCEPT ![lo + i] = k]
  ELSE LET u0 == SubK(t, p, a[lo + j], d)
           useR == j < r /\ Cmp(u0, SubK(t, p, a[lo + j + 1], d)) < 0
           j1 == IF useR THEN j + 1 ELSE j
           u  == SubK(t, p, a[lo + j1], d)
       IN IF Cmp(x, u) >= 0 THEN [a EXCEPT ![lo + i] = k]
          ELSE HSSift([a EXCEPT ![lo + i] = a[lo + j1]], t, p, d, lo, j1, r, x, k)

RECURSIVE HSHeap(_, _, _, _, _, _, _)
HSHeap(a, t, p, d, lo, l, r) ==
  IF l > 0
  THEN LET k == a[lo + l - 1] IN HSHeap(HSSift(a, t, p, d, lo, l - 1, r, SubK(t, p, k, d), k), t, p, d, lo, l - 1, r)
  ELSE LET k  == a[lo + r]
           a1 == [a EXCEPT ![lo + r] = a[lo]]
           r1 == r - 1
       IN IF r1 = 0 THEN [a1 EXCEPT ![lo] = k]
          ELSE HSHeap(HSSift(a1, t, p, d, lo, 0, r1, SubK(t, p, k, d), k), t, p, d, lo, 0, r1)

HeapSortS(a, t, p, f, b, d) ==
  LET n == b - f IN
  IF n < 2 THEN a
  ELSE InsertSortNeg(HSHeap(a, t, p, d, f, n \div 2, n - 1), t, p, f, b, d)

(* ---- medianOf3, exchange, partition ---- *)
ChAt(a, t, p, d, i) == TAt(t, d + PAt(p, a[i]))

MedianOf3(a, t, p, i, j, k, d) ==
  LET ca == ChAt(a, t, p, d, i)
      cb0 == ChAt(a, t, p, d, j)
      cc0 == ChAt(a, t, p, d, k)
      sw == cb0 > cc0
      j1 == IF sw THEN k ELSE j
      k1 == IF sw THEN j ELSE k
      cb == IF sw THEN cc0 ELSE cb0
      cc == IF sw THEN cb0 ELSE cc0
  IN IF ca <= cb THEN j1 ELSE IF ca <= cc THEN i ELSE k1

RECURSIVE ExLoop(_, _, _, _)
ExLoop(a, i, j, k) == IF i >= j THEN a ELSE ExLoop(SSwap(a, i, k - 1), i + 1, j, k - 1)
Exchange(a, i, j, k) == ExLoop(a, i, IF j - i > k - j THEN i + k - j ELSE j, k)

(* q: [a, i, j, u, v]; returns the state at "break burn" *)
RECURSIVE PSUp(_, _, _, _, _), PSDown(_, _, _, _, _), PSBurn(_, _, _, _, _)
PSUp(q, t, p, d, pc) ==               \* first inner loop; result tagged <<"burn" | "go", q>>
  IF q.i >= q.j THEN <<"burn", q>>
  ELSE LET c == ChAt(q.a, t, p, d, q.i) IN
       IF c > pc THEN <<"go", q>>
       ELSE IF c < pc THEN PSUp([q EXCEPT !.i = @ + 1], t, p, d, pc)
       ELSE PSUp([q EXCEPT !.a = SSwap(q.a, q.u, q.i), !.u = @ + 1, !.i = @ + 1], t, p, d, pc)
PSDown(q, t, p, d, pc) ==
  IF q.i >= q.j THEN <<"burn", q>>
  ELSE LET c == ChAt(q.a, t, p, d, q.j) IN
       IF c < pc THEN <<"go", q>>
       ELSE IF c > pc THEN PSDown([q EXCEPT !.j = @ - 1], t, p, d, pc)
       ELSE LET v1 == q.v - 1 IN PSDown([q EXCEPT !.a = SSwap(q.a, q.j, v1), !.v = v1, !.j = @ - 1], t, p, d, pc)
PSBurn(q, t, p, d, pc) ==
  LET r1 == PSUp(q, t, p, d, pc) IN
  IF r1[1] = "burn" THEN r1[2]
  ELSE LET r2 == PSDown([r1[2] EXCEPT !.j = @ - 1], t, p, d, pc) IN
       IF r2[1] = "burn" THEN r2[2]
       ELSE LET q2 == r2[2] IN PSBurn([q2 EXCEPT !.a = SSwap(q2.a, q2.i, q2.j), !.i = @ + 1], t, p, d, pc)

PartitionS(a, t, p, f, b, mid, d) ==
  LET a0 == IF f < mid THEN SSwap(a, f, mid) ELSE a
      pc == ChAt(a0, t, p, d, f)
      q  == PSBurn([a |-> a0, i |-> f + 1, j |-> b, u |-> f + 1, v |-> b], t, p, d, pc)
      a1 == Exchange(q.a, f, q.u, q.i)
      a2 == Exchange(a1, q.i, q.v, b)
  IN [a |-> a2, e |-> f + q.i - q.u, g |-> b - (q.v - q.i)]

(* ---- filterStringEnds(f, b, d) : returns <<a, f>> ---- *)
Ended(p, k, d) == PAt(p, k) + d >= PAt(p, k + 1) + 2
RECURSIVE FUp(_, _, _, _, _), FDown(_, _, _, _, _), FBurn(_, _, _, _, _)
FUp(a, p, d, f, b) ==                 \* <<tag, a, f>>
  IF f >= b THEN <<"burn", a, f>>
  ELSE LET k == a[f] IN
       IF ~Ended(p, k, d) THEN <<"go", a, f>> ELSE FUp([a EXCEPT ![f] = SNeg(k)], p, d, f + 1, b)
FDown(a, p, d, f, b) ==               \* <<tag, b>>
  IF f >= b THEN <<"burn", b>>
  ELSE IF Ended(p, a[b], d) THEN <<"go", b>> ELSE FDown(a, p, d, f, b - 1)
FBurn(a, p, d, f, b) ==
  LET r1 == FUp(a, p, d, f, b) IN
  IF r1[1] = "burn" THEN <<r1[2], r1[3]>>
  ELSE LET a1 == r1[2]
           f1 == r1[3]
           r2 == FDown(a1, p, d, f1, b - 1)
       IN IF r2[1] = "burn" THEN <<a1, f1>>
          ELSE LET b1 == r2[2]
                   a2 == [a1 EXCEPT ![f1] = SNeg(a1[b1]), ![b1] = a1[f1]]
               IN FBurn(a2, p, d, f1 + 1, b1)
FilterStringEnds(a, p, f, b, d) ==
  IF d >= 4
  THEN LET r == FBurn(a, p, d, f, b) IN
       IF r[2] > f THEN <<[r[1] EXCEPT ![f] = SNeg(r[1][f])], r[2]>> ELSE r
  ELSE <<a, f>>

(* ---- introSortLoop(f, b, d, depthLimit) ---- *)
RECURSIVE IntroLoop(_, _, _, _, _, _, _, _)
IntroLoop(a, t, p, f, b, d, lim, thr) ==
  IF ~(b - f > thr) THEN InsertSortNeg(a, t, p, f, b, d)
  ELSE IF lim <= 0 THEN HeapSortS(a, t, p, f, b, d)
  ELSE LET mid == MedianOf3(a, t, p, f, f + (b - f) \div 2, b - 1, d)
           pr  == PartitionS(a, t, p, f, b, mid, d)
           l1  == lim - 1
           a1  == IntroLoop(pr.a, t, p, f, pr.e, d, l1, thr)
           fe  == FilterStringEnds(a1, p, pr.e, pr.g, d + 1)
           a2  == IntroLoop(fe[1], t, p, fe[2], pr.g, d + 1, l1, thr)
       IN IntroLoop(a2, t, p, pr.g, b, d, l1, thr)

(* ---- ssort(f, b, lastIndex) ---- *)
RECURSIVE BinIns(_, _, _, _, _, _)
BinIns(a, t, p, x, i, b) ==            \* returns <<b, negate?>>
  IF ~(i < b) THEN <<b, FALSE>>
  ELSE LET k == (i + b) \div 2
           r == Cmp(x, SubK(t, p, AbsNeg(a[k]), 2))
       IN IF r < 0 THEN BinIns(a, t, p, x, i, k)
          ELSE IF r = 0 THEN <<k + 1, TRUE>>
          ELSE BinIns(a, t, p, x, k + 1, b)

Ssort(a, t, p, f, b, lastIndex, thr) ==
  LET i  == IF lastIndex THEN f + 1 ELSE f
      a1 == IntroLoop(a, t, p, i, b, 2, 2 * SLog2(b - i), thr)
  IN IF ~lastIndex \/ i = b THEN a1
     ELSE LET tv == a1[f]
              x  == LET from == PAt(p, tv) + 2 IN IF from >= Len(t) THEN <<>> ELSE SubSeq(t, from + 1, Len(t))
              r  == BinIns(a1, t, p, x, i, b)
              b1 == r[1]
              tv1 == IF r[2] THEN SNeg(tv) ELSE tv
          IN [y \in DOMAIN a1 |-> IF y >= f /\ y < b1 - 1 THEN a1[y + 1] ELSE IF y = b1 - 1 THEN tv1 ELSE a1[y]]

(* ---- the driver around it ---- *)
(* bucket ends of the B* substrings in the B*-only array (as after stage 2), *)
(* indexed by <<c0, c1>>                                                     *)
RECURSIVE Place(_, _, _, _, _, _)
Place(a, t, pos, l, ends, lastLi) ==      \* l = next index (text order) to place; returns <<a, ends, li>>
  LET m == Len(pos) IN
  IF l >= m THEN <<a, ends, lastLi>>
  ELSE LET j  == pos[l + 1]
           c  == <<t[j + 1], t[j + 2]>>
           i  == ends[c] - 1
       IN Place([a EXCEPT ![i] = l], t, pos, l + 1, [ends EXCEPT ![c] = i], i)

(* the buckets from the highest <<c0, c1>> down, each sorted when it has more than one member *)
RECURSIVE SortBuckets(_, _, _, _, _, _, _, _)
SortBuckets(a, t, p, starts, bks, j, li, thr) ==     \* bks: bucket keys in descending order
  IF bks = <<>> THEN a
  ELSE LET i  == starts[Head(bks)]
           a1 == IF j - i > 1 THEN Ssort(a, t, p, i, j, li = i, thr) ELSE a
       IN SortBuckets(a1, t, p, starts, Tail(bks), i, li, thr)

(* rank fill (k1.go): from the sorted, complement-marked substrings to <<sa, isa>> *)
RECURSIVE RFSingles(_, _, _), RFTies(_, _, _, _), RankFillLoop(_, _, _)
RFSingles(a, g, i) ==                 \* do { isa[sa[i]] = i; i-- } while !(i < 0 || sa[i] < 0); returns <<g, i>>
  LET g1 == [g EXCEPT ![a[i]] = i]
      i1 == i - 1
  IN IF i1 < 0 \/ a[i1] < 0 THEN <<g1, i1>> ELSE RFSingles(a, g1, i1)
RFTies(a, g, i, j) ==                 \* do { sa[i] = ^sa[i]; isa[sa[i]] = j; i-- } while sa[i] < 0; returns <<a, g, i>>
  LET a1 == [a EXCEPT ![i] = SNeg(a[i])]
      g1 == [g EXCEPT ![a1[i]] = j]
      i1 == i - 1
  IN IF a1[i1] >= 0 THEN <<a1, g1, i1>> ELSE RFTies(a1, g1, i1, j)
RankFillLoop(a, g, i) ==
  IF i < 0 THEN <<a, g>>
  ELSE IF a[i] >= 0
  THEN LET r  == RFSingles(a, g, i)
           i1 == r[2]
           a1 == [a EXCEPT ![i1 + 1] = i1 - i]
       IN IF i1 <= 0 THEN <<a1, r[1]>>
          ELSE LET r2 == RFTies(a1, r[1], i1, i1)
                   g2 == [r2[2] EXCEPT ![r2[1][r2[3]]] = i1]
               IN RankFillLoop(r2[1], g2, r2[3] - 1)
  ELSE LET r2 == RFTies(a, g, i, i)
           g2 == [r2[2] EXCEPT ![r2[1][r2[3]]] = i]
       IN RankFillLoop(r2[1], g2, r2[3] - 1)
RankFill(a) ==
  LET m == Cardinality(DOMAIN a) IN RankFillLoop(a, [x \in 0..m - 1 |-> 0], m - 1)
=============================================================================
