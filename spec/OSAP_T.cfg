SPECIFICATION Spec
CONSTANTS
  Alpha = {0, 1}
  MaxN = 8
  Blks = {3, 8}
  MinMs = {2, 3}
  MaxMs = {3, 8}
  Wnds = {2, 8}
  Variant = "code"
  EmitOps = TRUE
  EmitEvery = 10
INVARIANT StateInv
PROPERTY Refines
ACTION_CONSTRAINT EmitAC
VIEW View
CHECK_DEADLOCK FALSE
