SPECIFICATION Spec
CONSTANTS
  Sigma = 2
  MaxN = 14
  Variant = "code"
  EmitOps = FALSE
INVARIANT Inv
CHECK_DEADLOCK FALSE
