--------------------------- MODULE DecoderBufImpl ---------------------------
(***************************************************************************)
(* Implementation-shaped specification of lz.DecoderBuffer: a              *)
(* transcription of decoder_buffer.go (shrink policy, size guards, the     *)
(* all-or-nothing writes).  It is used                                     *)
(*   - by TLC to check that the code's design refines the DecoderBuf       *)
(*     envelope (DecoderBufMC.tla),                                        *)
(*   - as generator of call histories that are replayed into the real      *)
(*     code, and                                                           *)
(*   - as the buffer underneath the Decoder retry loops (Decoder.tla).     *)
(* Deliberate deviation: Go's append may leave spare capacity, and the     *)
(* code then raises its soft BufferSize to cap(Data).  The model keeps     *)
(* cap(Data) <= BufferSize (constant Grow = FALSE) or lets the capacity    *)
(* double (Grow = TRUE, as Go's append does for small slices).             *)
(***************************************************************************)
EXTENDS LZ77

IInit(W, B) == [data |-> <<>>, r |-> 0, off |-> 0, bsz |-> B, W |-> W, cap |-> 0]

(* append: Go grows the backing array; model: exactly or by doubling.      *)
GrowCap(b, n, grow) ==
  IF n <= b.cap THEN b.cap
  ELSE IF grow THEN Max(n, 2 * b.cap) ELSE n

WithData(b, d, grow) == [b EXCEPT !.data = d, !.cap = GrowCap(b, Len(d), grow)]

(* shrink(g): <<b', delta>>  (decoder_buffer.go:124-142)                   *)
IShrink(b, g) ==
  LET b1 == IF b.bsz < b.cap THEN [b EXCEPT !.bsz = b.cap] ELSE b
  IN IF b.bsz < b.cap /\ g <= b1.bsz THEN <<b1, 0>>
     ELSE LET d0    == Max(Len(b1.data) - b1.W, 0)
              delta == Min(d0, b1.r)
          IN IF delta = 0 THEN <<b1, 0>>
             ELSE <<[b1 EXCEPT !.data = SubSeq(b1.data, delta + 1, Len(b1.data)),
                               !.r = b1.r - delta], delta>>

Obs(b, ev) == ev @@ [data |-> b.data, r |-> b.r, off |-> b.off, bsz |-> b.bsz]

IWriteByte(b, c, grow) ==
  LET g == Len(b.data) + 1 IN
  IF g > b.bsz
  THEN LET sh == IShrink(b, g) IN
       IF g - sh[2] > sh[1].bsz
       THEN [st |-> sh[1], ev |-> Obs(sh[1], [op |-> "wbyte", c |-> c, err |-> "full"])]
       ELSE LET b2 == [WithData(sh[1], Append(sh[1].data, c), grow) EXCEPT !.off = @ + 1]
            IN [st |-> b2, ev |-> Obs(b2, [op |-> "wbyte", c |-> c, err |-> ""])]
  ELSE LET b2 == [WithData(b, Append(b.data, c), grow) EXCEPT !.off = @ + 1]
       IN [st |-> b2, ev |-> Obs(b2, [op |-> "wbyte", c |-> c, err |-> ""])]

IWrite(b, p, grow) ==
  LET n == Len(p)
      g == Len(b.data) + n
      sh == IF g > b.bsz THEN IShrink(b, g) ELSE <<b, 0>>
      b1 == sh[1]
  IN IF g > b.bsz /\ g - sh[2] > b1.bsz
     THEN [st |-> b1, ev |-> Obs(b1, [op |-> "dwrite", p |-> p, n |-> 0, err |-> "full"])]
     ELSE LET b2 == [WithData(b1, b1.data \o p, grow) EXCEPT !.off = @ + n]
          IN [st |-> b2, ev |-> Obs(b2, [op |-> "dwrite", p |-> p, n |-> n, err |-> ""])]

IWriteMatch(b, m, o, grow) ==
  LET fail(b1, e) == [st |-> b1, ev |-> Obs(b1, [op |-> "wmatch", m |-> m, o |-> o, n |-> 0, err |-> e])]
      winLen == Min(Len(b.data), b.W)
  IN IF o = 0 /\ m > 0 THEN fail(b, "other:offset")
     ELSE IF o > winLen THEN fail(b, "other:offset")
     ELSE LET a == b.bsz - Len(b.data) IN
          LET sh == IF m > a THEN IShrink(b, m + Len(b.data)) ELSE <<b, 0>>
                   b1 == sh[1]
               IN IF m > a /\ m > b1.bsz - Len(b1.data) THEN fail(b1, "full")
                  ELSE LET b2 == [WithData(b1, Copy(b1.data, o, m), grow) EXCEPT !.off = @ + m]
                       IN [st |-> b2, ev |-> Obs(b2, [op |-> "wmatch", m |-> m, o |-> o, n |-> m, err |-> ""])]

(* The sequence loop of WriteBlock: result [b, k, err, lits (remaining)].  *)
RECURSIVE IWBLoop(_, _, _, _, _)
IWBLoop(b, seqs, lits, i, grow) ==
  IF i > Len(seqs) THEN [b |-> b, k |-> Len(seqs), err |-> "", lits |-> lits]
  ELSE LET s == seqs[i]
           fail(b1, e) == [b |-> b1, k |-> i - 1, err |-> e, lits |-> lits]
       IN IF Lit(s) > Len(lits) THEN fail(b, "other:litlen")
          ELSE IF Off(s) = 0 /\ MLen(s) > 0 THEN fail(b, "other:offset")
          ELSE IF Off(s) > Min(Len(b.data) + Lit(s), b.W) THEN fail(b, "other:offset")
          ELSE LET g == Lit(s) + MLen(s)
                   a == b.bsz - Len(b.data)
               IN LET sh == IF g > a THEN IShrink(b, g + Len(b.data)) ELSE <<b, 0>>
                           b1 == sh[1]
                       IN IF g > a /\ g > b1.bsz - Len(b1.data) THEN fail(b1, "full")
                          ELSE LET d1 == b1.data \o SubSeq(lits, 1, Lit(s))
                                   b2 == WithData(b1, Copy(d1, Off(s), MLen(s)), grow)
                               IN IWBLoop(b2, seqs, SubSeq(lits, Lit(s) + 1, Len(lits)), i + 1, grow)

IWriteBlock(b, seqs, lits, grow) ==
  LET r  == IWBLoop(b, seqs, lits, 1, grow)
      ev0 == [op |-> "wblock", seqs |-> seqs, lits |-> lits, untouched |-> TRUE]
      fin(b1, k, rem, e) ==
        LET l  == Len(lits) - Len(rem)
            n  == LitUpTo(seqs, k) + MatchSumAcc(seqs, k, 0) + (l - LitUpTo(seqs, k))
            b2 == [b1 EXCEPT !.off = @ + n]
        IN [st |-> b2, ev |-> Obs(b2, ev0 @@ [n |-> n, k |-> k, l |-> l, err |-> e])]
  IN IF r.err # "" THEN fin(r.b, r.k, r.lits, r.err)
     ELSE LET g  == Len(r.b.data) + Len(r.lits)
              sh == IF g > r.b.bsz THEN IShrink(r.b, g) ELSE <<r.b, 0>>
              b1 == sh[1]
          IN IF g > r.b.bsz /\ g - sh[2] > b1.bsz THEN fin(b1, r.k, r.lits, "full")
             ELSE fin(WithData(b1, b1.data \o r.lits, grow), r.k, <<>>, "")

IRead(b, max) ==
  LET avail == Len(b.data) - b.r
      n  == Min(max, avail)
      out == SubSeq(b.data, b.r + 1, b.r + n)
      b2 == [b EXCEPT !.r = @ + n]
  IN [st |-> b2, ev |-> Obs(b2, [op |-> "read", max |-> max, out |-> out, n |-> n, err |-> ""])]

(* WriteTo with a writer that accepts `acc` bytes (-1: all) and fails iff   *)
(* it wrote short or `fail`.                                               *)
IWriteTo(b, acc, fail) ==
  LET offered == SubSeq(b.data, b.r + 1, Len(b.data))
      k    == IF acc < 0 \/ acc > Len(offered) THEN Len(offered) ELSE acc
      werr == IF k < Len(offered) \/ fail THEN "writer" ELSE ""
      b2   == [b EXCEPT !.r = @ + k]
  IN [st |-> b2, ev |-> Obs(b2, [op |-> "writeto", offered |-> offered, accepted |-> k,
                                werr |-> werr, n |-> k, err |-> werr])]

IReset(b) ==
  LET b2 == [b EXCEPT !.data = <<>>, !.r = 0, !.off = 0,
                      !.bsz = IF b.cap > b.bsz THEN b.cap ELSE b.bsz]
  IN [st |-> b2, ev |-> Obs(b2, [op |-> "dreset", err |-> ""])]

(* One call (a record as it appears in a script) applied to b.             *)
IStep(b, c, grow) ==
  CASE c.op = "wbyte"   -> IWriteByte(b, c.c, grow)
    [] c.op = "dwrite"  -> IWrite(b, c.p, grow)
    [] c.op = "wmatch"  -> IWriteMatch(b, c.m, c.o, grow)
    [] c.op = "wblock"  -> IWriteBlock(b, c.seqs, c.lits, grow)
    [] c.op = "read"    -> IRead(b, c.max)
    [] c.op = "writeto" -> IWriteTo(b, c.accept, c.fail)
    [] c.op = "dreset"  -> IReset(b)
=============================================================================
