SPECIFICATION Spec
CONSTANTS
  Ws = {1, 2}
  Slack = {1, 2}
  Alpha = {0, 1}
  MaxHist = 5
  MaxWrite = 2
  MaxM = 3
  MaxO = 3
  MaxSeqs = 1
  MaxLit = 1
  Grow = FALSE
  EmitOps = TRUE
INVARIANT Inv
ACTION_CONSTRAINT Emit
CONSTRAINT Bound
VIEW View
CHECK_DEADLOCK FALSE
