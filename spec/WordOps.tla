------------------------------- MODULE WordOps -------------------------------
(***************************************************************************)
(* Implementation-shaped model of the word-wise byte string primitives of  *)
(* bytes.go that every hash parser uses to measure matches: lcp (longest   *)
(* common prefix, 8 bytes at a time, then 4, then single bytes) and lcs     *)
(* (longest common suffix, 8 bytes at a time from the end, then the        *)
(* remaining 1..7 leading bytes in one shifted 64-bit comparison).         *)
(*                                                                         *)
(* A 64-bit little-endian word is modelled as its 8 bytes; x ^ y is zero   *)
(* in a byte exactly when the bytes agree, so TrailingZeros64(x ^ y) >> 3  *)
(* is the number of equal bytes from the low end and LeadingZeros64 >> 3   *)
(* the number from the high end.  getLE64 pads short slices with zeros;    *)
(* `<< s` drops the high bytes and moves the low ones up.                  *)
(*                                                                         *)
(* Scope: byte strings are built as (different prefixes) + separator +     *)
(* common part, resp. common part + separator + different tails, for all   *)
(* lengths up to MaxLen (beyond two words) - every length relation to the  *)
(* 8- and 4-byte steps.  Checked: Lcp / Lcs equal the definitions.  Every  *)
(* case is replayed into the real functions (verif export VerifLcpLcs).    *)
(***************************************************************************)
EXTENDS Integers, Sequences, Json, TLC

CONSTANTS MaxLen, EmitOps

VARIABLES p, q, done
vars == <<p, q, done>>

Min2(a, b) == IF a < b THEN a ELSE b

(* definitions *)
RECURSIVE DefLcp(_, _, _)
DefLcp(x, y, k) == IF k >= Len(x) \/ k >= Len(y) \/ x[k + 1] # y[k + 1] THEN k ELSE DefLcp(x, y, k + 1)
RECURSIVE DefLcs(_, _, _)
DefLcs(x, y, k) == IF k >= Len(x) \/ k >= Len(y) \/ x[Len(x) - k] # y[Len(y) - k] THEN k ELSE DefLcs(x, y, k + 1)

(* the 8 bytes of getLE64(s[from:]) for a slice with at least 8 bytes, resp. padded *)
Word(s, from) == [i \in 0..7 |-> IF from + i < Len(s) THEN s[from + i + 1] ELSE 0]
RECURSIVE Tz(_, _, _, _)      \* equal bytes from the low end of two words, up to n bytes
Tz(x, y, k, n) == IF k >= n \/ x[k] # y[k] THEN k ELSE Tz(x, y, k + 1, n)
RECURSIVE Lz(_, _, _)         \* equal bytes from the high end
Lz(x, y, k) == IF k >= 8 \/ x[7 - k] # y[7 - k] THEN k ELSE Lz(x, y, k + 1)

(* ---- lcp(p, q) ---- *)
RECURSIVE Lcp8(_, _, _, _)
Lcp8(a, b, off, n) ==             \* a is the longer one; off = bytes consumed so far
  IF Len(b) - off >= 8
  THEN LET k == Tz(Word(a, off), Word(b, off), 0, 8) IN
       IF k < 8 THEN n + k ELSE Lcp8(a, b, off + 8, n + 8)
  ELSE IF Len(b) - off >= 4
  THEN LET k == Tz(Word(a, off), Word(b, off), 0, 4) IN
       IF k < 4 THEN n + k ELSE n + 4 + Tz(Word(a, off + 4), Word(b, off + 4), 0, Len(b) - off - 4)
  ELSE n + Tz(Word(a, off), Word(b, off), 0, Len(b) - off)
Lcp(x, y) == IF Len(y) > Len(x) THEN Lcp8(y, x, 0, 0) ELSE Lcp8(x, y, 0, 0)

(* ---- lcs(p, q) ---- *)
RECURSIVE Lcs8(_, _, _, _)
Lcs8(a, b, i, n) ==               \* a already cut to the length of b; i = start of the current word
  IF i >= 0
  THEN LET k == Lz(Word(a, i), Word(b, i), 0) IN
       IF k < 8 THEN n + k ELSE Lcs8(a, b, i - 8, n + 8)
  ELSE LET r == i + 8 IN           \* r leading bytes are left (0..7)
       IF r > 0
       THEN \* x = getLE64(b) << s, s = (8-r)*8: the low r bytes move to the top
            LET wa == [j \in 0..7 |-> IF j >= 8 - r THEN Word(a, 0)[j - (8 - r)] ELSE 0]
                wb == [j \in 0..7 |-> IF j >= 8 - r THEN Word(b, 0)[j - (8 - r)] ELSE 0]
                k  == Lz(wa, wb, 0)
            IN n + Min2(k, r)
       ELSE n
Lcs(x, y) ==
  LET a0 == IF Len(y) > Len(x) THEN y ELSE x
      b  == IF Len(y) > Len(x) THEN x ELSE y
      a  == SubSeq(a0, Len(a0) - Len(b) + 1, Len(a0))
  IN Lcs8(a, b, Len(b) - 8, 0)

(* ---- scope ---- *)
Rep(c, n) == [i \in 1..n |-> c]
Cases ==
  { <<Rep(1, c) \o x, Rep(1, c) \o y>> : c \in 0..MaxLen,
       x \in { <<>>, <<2>>, <<2, 1>>, <<2>> \o Rep(1, 9) }, y \in { <<>>, <<3>>, <<3, 1, 1>>, <<3>> \o Rep(1, 12) } }
  \cup
  { <<x \o Rep(1, c), y \o Rep(1, c)>> : c \in 0..MaxLen,
       x \in { <<>>, <<2>>, <<1, 2>>, Rep(1, 9) \o <<2>> }, y \in { <<>>, <<3>>, <<1, 1, 3>>, Rep(1, 12) \o <<3>> } }
  \cup
  { <<Rep(0, c) \o x, Rep(0, c)>> : c \in 0..MaxLen, x \in { <<>>, <<0>>, <<0, 0, 0, 0, 0>> } }

Init == \E cs \in Cases : p = cs[1] /\ q = cs[2] /\ done = FALSE
Next == done' = TRUE /\ UNCHANGED <<p, q>>
Spec == Init /\ [][Next]_vars

Inv == /\ Lcp(p, q) = DefLcp(p, q, 0) /\ Lcp(q, p) = DefLcp(p, q, 0)
       /\ Lcs(p, q) = DefLcs(p, q, 0) /\ Lcs(q, p) = DefLcs(p, q, 0)
Emit == (EmitOps /\ ~done) =>
          PrintT(<<"VERIF_OPS", ToJson(<<[op |-> "lcplcs", p |-> p, q |-> q,
                                          expect |-> [lcp |-> Lcp(p, q), lcs |-> Lcs(p, q)]]>>)>>)
=============================================================================
