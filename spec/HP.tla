--------------------------------- MODULE HP ---------------------------------
(***************************************************************************)
(* Implementation-shaped model of the hash parser HP (hp.go) with its      *)
(* dictionary (hash.go: hash table, processSegment, shiftOffsets, reset)   *)
(* on top of the ParserBuffer design (parser_buffer.go).                   *)
(*                                                                         *)
(* State: data (retained bytes), w (parse position in data), off (absolute *)
(* offset of data[0]), table (slot -> <<pos, val>>, <<0,0>> = empty - the  *)
(* same aliasing as hashEntry{} in the code), cf (configuration).          *)
(*                                                                         *)
(* The hash function itself (64-bit multiplication) cannot be evaluated    *)
(* by TLC; HPHash.tla tabulates its slot for every gram of the model       *)
(* alphabet (generated from the definition in hash.go by bin/mkhptab), so  *)
(* the model uses the real collision structure and predicts the very       *)
(* blocks the real parser emits: besides the envelope verdict every        *)
(* generated history carries the model's prediction, and a difference      *)
(* between prediction and recorded block is reported as DRIFT.             *)
(*                                                                         *)
(* Backward = TRUE gives BHP (bhp.go): a match found at i is extended to    *)
(* the left over the pending literals as far as the bytes in front of the  *)
(* source agree (lcs); this is what C19.left_maximal demands.              *)
(*                                                                         *)
(* Actions: Write, Parse(flags) (the scan loop statement by statement: the *)
(* lookup replaces the slot before the candidate is examined, window and   *)
(* minimum-length tests, extension clipped at the block end, covered       *)
(* positions inserted up to inputEnd, NoTrailingLiterals rewind),          *)
(* Parse(nil) (processSegment only), Shrink (buffer shift + shiftOffsets), *)
(* Reset(nil | data) (table cleared).                                      *)
(*                                                                         *)
(* Checked: every event satisfies the ParserSM envelope (C01 C02 C03 C14   *)
(* C15 C19.right_maximal); TableSound - every non-empty slot describes the *)
(* buffer (position in range, stored value = gram at that position): this  *)
(* is what makes a used-and-reset dictionary indistinguishable from a new  *)
(* one (C13) and what Shrink has to preserve (C01); ResetClean.            *)
(***************************************************************************)
EXTENDS ParserSM, HPHash, Json

CONSTANTS Alpha, Scope, MaxInp, MaxWrite, EmitOps, EmitEvery,
          Backward   \* TRUE: the backward extending variant BHP (bhp.go), FALSE: HP

(* configurations explored (BufferSize, ShrinkSize, WindowSize, BlockSize,  *)
(* InputLen, HashBits): tiny buffers, windows smaller and larger than the  *)
(* buffer, 2 or 4 hash slots so that slots are overwritten all the time    *)
Geoms ==
  IF Scope = "quick"
  THEN { [B |-> b, S |-> 2, Wnd |-> wd, Blk |-> k, il |-> 2, hb |-> h] :
           b \in {6}, wd \in {3, 8}, k \in {3, 8}, h \in {1, 2} }
  ELSE { [B |-> b, S |-> sz, Wnd |-> wd, Blk |-> k, il |-> il, hb |-> h] :
           b \in {4, 6}, sz \in {1, 3}, wd \in {1, 3, 8}, k \in {2, 3, 8}, il \in {2, 3}, h \in {1, 2} }

VARIABLES data, w, off, table, cf, st, ev, ops

vars == <<data, w, off, table, cf, st, ev, ops>>
View == <<data, w, off, table, cf, st.inp>>

RECURSIVE SeqsUpTo(_, _)
SeqsUpTo(S, n) == IF n = 0 THEN {<<>>} ELSE SeqsUpTo(S, n - 1) \cup [1..n -> S]
Bytes(n) == SeqsUpTo(Alpha, n)

NSlots == CASE cf.hb = 1 -> 2 [] cf.hb = 2 -> 4 [] OTHER -> 8
Empty == [s \in 0..7 |-> <<0, 0>>]

Kind == IF Backward THEN "BHP" ELSE "HP"
Cfg(c) == [kind |-> Kind, B |-> c.B, S |-> c.S, Wnd |-> c.Wnd, Blk |-> c.Blk, il |-> c.il, mm |-> 0, xm |-> 0]

Init ==
  /\ cf \in Geoms
  /\ data = <<>> /\ w = 0 /\ off = 0 /\ table = Empty
  /\ st = PInit(Cfg(cf))
  /\ ev = [op |-> "begin"]
  /\ ops = <<[op |-> "begin", kind |-> Kind, BufferSize |-> cf.B, ShrinkSize |-> cf.S, WindowSize |-> cf.Wnd,
              BlockSize |-> cf.Blk, InputLen |-> cf.il, HashBits |-> cf.hb]>>

(* gram value at index i (0-based) of d: the first InputLen bytes, little endian *)
Gram(d, i) == IF cf.il = 2 THEN d[i + 1] + 256 * d[i + 2]
              ELSE d[i + 1] + 256 * d[i + 2] + 65536 * d[i + 3]
Slot(x) == HashTab[<<cf.il, cf.hb>>][x]

Ins(tb, d, i) == [tb EXCEPT ![Slot(Gram(d, i))] = <<i, Gram(d, i)>>]

RECURSIVE InsRange(_, _, _, _)
InsRange(tb, d, a, b) == IF a >= b THEN tb ELSE InsRange(Ins(tb, d, a), d, a + 1, b)

(* processSegment(a, b) of hash.go *)
ProcSeg(tb, d, a0, b0) ==
  LET a == Max(a0, 0)
      c == Len(d) - cf.il + 1
      b == Min(b0, c)
  IN IF b <= 0 THEN tb ELSE InsRange(tb, d, a, b)

RECURSIVE ClipLcpD(_, _, _, _, _)
ClipLcpD(d, j, i, e, acc) ==
  IF i + acc >= e THEN acc
  ELSE IF d[j + acc + 1] # d[i + acc + 1] THEN acc
  ELSE ClipLcpD(d, j, i, e, acc + 1)

MinMatch == IF cf.il < 3 THEN cf.il ELSE 3

(* lcs(p[j-back:j], p[:i]): number of equal bytes in front of j and i, at most back *)
RECURSIVE LcsD(_, _, _, _, _)
LcsD(d, j, i, back, acc) ==
  IF acc >= back THEN acc
  ELSE IF d[j - acc] # d[i - acc] THEN acc       \* bytes j-1-acc and i-1-acc (0-based)
  ELSE LcsD(d, j, i, back, acc + 1)

(* the scan loop: returns [tb, seqs, lit] *)
RECURSIVE Scan(_, _, _, _, _, _)
Scan(tb, i, e, inputEnd, litIndex, seqs) ==
  IF i >= inputEnd THEN [tb |-> tb, seqs |-> seqs, lit |-> litIndex]
  ELSE LET x == Gram(data, i)
           entry == tb[Slot(x)]
           tb1 == Ins(tb, data, i)
           j == entry[1]
           o == i - j
       IN IF x # entry[2] \/ ~(0 < o /\ o <= cf.Wnd)
          THEN Scan(tb1, i + 1, e, inputEnd, litIndex, seqs)
          ELSE LET k == ClipLcpD(data, j, i, e, 0) IN
               IF k < MinMatch THEN Scan(tb1, i + 1, e, inputEnd, litIndex, seqs)
               ELSE LET back == IF Backward THEN Min(i - litIndex, j) ELSE 0
                        m   == IF back > 0 THEN LcsD(data, j, i, back, 0) ELSE 0    \* BHP: extend to the left
                        i2  == i - m
                        k2  == k + m
                        li2 == i2 + k2
                        tb2 == InsRange(tb1, data, i2 + 1, Min(li2, inputEnd))
                    IN Scan(tb2, li2, e, inputEnd, li2, Append(seqs, <<i2 - litIndex, k2, o, 0>>))

RECURSIVE LitsOf(_, _, _, _)
LitsOf(seqs, k, pos, acc) ==
  IF k > Len(seqs) THEN acc
  ELSE LET s == seqs[k] IN LitsOf(seqs, k + 1, pos + s[1] + s[2], acc \o SubSeq(data, pos + 1, pos + s[1]))

Apply(e1, call, pred) ==
  /\ ev' = e1
  /\ st' = PEff(st, e1)
  /\ ops' = IF EmitOps THEN Append(ops, call @@ [expect |-> pred]) ELSE ops

DoWrite ==
  \E p \in Bytes(MaxWrite) :
    /\ p # <<>>
    /\ Len(st.inp) + Len(p) <= MaxInp
    /\ LET avail == cf.B - Len(data)
           n == Min(Len(p), avail)
       IN /\ data' = data \o SubSeq(p, 1, n)
          /\ Apply([op |-> "write", p |-> p, n |-> n, err |-> IF avail < Len(p) THEN "full" ELSE ""],
                   [op |-> "write", p |-> p], [n |-> n])
    /\ UNCHANGED <<w, off, table, cf>>

DoParse ==
  \E fl \in {0, 1} :
    LET n == Min(Len(data) - w, cf.Blk) IN
    IF n = 0
    THEN /\ Apply([op |-> "parse", flags |-> fl, n |-> 0, err |-> "empty", seqs |-> <<>>, lits |-> <<>>],
                  [op |-> "parse", flags |-> fl], [n |-> 0, seqs |-> <<>>])
         /\ UNCHANGED <<data, w, off, table, cf>>
    ELSE LET e  == w + n
             tb0 == ProcSeg(table, data, w - cf.il + 1, w)
             r  == Scan(tb0, w, e, e - cf.il + 1, w, <<>>)
             ntl == fl = 1 /\ r.seqs # <<>>
             newW == IF ntl THEN r.lit ELSE e
             lits == LitsOf(r.seqs, 1, w, <<>>) \o (IF ntl THEN <<>> ELSE SubSeq(data, r.lit + 1, e))
         IN /\ table' = r.tb
            /\ w' = newW
            /\ Apply([op |-> "parse", flags |-> fl, n |-> newW - w, err |-> "", seqs |-> r.seqs, lits |-> lits],
                     [op |-> "parse", flags |-> fl], [n |-> newW - w, seqs |-> r.seqs])
            /\ UNCHANGED <<data, off, cf>>

DoParseNil ==
  LET n == Min(Len(data) - w, cf.Blk) IN
  /\ IF n = 0 THEN UNCHANGED <<table, w>>
     ELSE /\ table' = ProcSeg(table, data, w - cf.il + 1, w + n)
          /\ w' = w + n
  /\ Apply([op |-> "parsenil", n |-> n, err |-> IF n = 0 THEN "empty" ELSE ""], [op |-> "parsenil"], [n |-> n])
  /\ UNCHANGED <<data, off, cf>>

(* shiftOffsets: entries below delta are cleared, the others re-based *)
Shift(tb, delta) == [s \in DOMAIN tb |-> IF tb[s][1] < delta THEN <<0, 0>> ELSE <<tb[s][1] - delta, tb[s][2]>>]

DoShrink ==
  LET delta == w - cf.S IN
  /\ IF delta <= 0 THEN UNCHANGED <<data, w, off, table>>
     ELSE /\ data' = SubSeq(data, delta + 1, Len(data))
          /\ w' = cf.S /\ off' = off + delta
          /\ table' = Shift(table, delta)
  /\ Apply([op |-> "shrink", delta |-> Max(delta, 0)], [op |-> "shrink"], [delta |-> Max(delta, 0)])
  /\ UNCHANGED cf

DoReset ==
  \E d \in {<<>>} \cup { x \in Bytes(3) : Len(x) = 3 } :
    /\ IF Len(d) > cf.B
       THEN /\ UNCHANGED <<data, w, off, table>>
            /\ Apply([op |-> "reset", data |-> d, cap |-> 0, err |-> "oversize"], [op |-> "reset", data |-> d, cap |-> 0], [err |-> "oversize"])
       ELSE /\ data' = d /\ w' = 0 /\ off' = 0 /\ table' = Empty
            /\ Apply([op |-> "reset", data |-> d, cap |-> 0, err |-> ""], [op |-> "reset", data |-> d, cap |-> 0], [err |-> ""])
    /\ Len(st.inp) > 0       \* a Reset of an unused parser adds nothing
    /\ UNCHANGED cf

Next == DoWrite \/ DoParse \/ DoParseNil \/ DoShrink \/ DoReset
Spec == Init /\ [][Next]_vars

(* ---- properties ---- *)
Refines == [][PWhy(st, ev', {}) = {}]_vars

TableSound ==
  \A s \in 0..NSlots - 1 :
    LET en == table[s] IN
    en = <<0, 0>> \/ (en[1] + cf.il <= Len(data) /\ Gram(data, en[1]) = en[2] /\ Slot(en[2]) = s)
Unused == \A s \in NSlots..7 : table[s] = <<0, 0>>
ResetClean == (ev.op = "reset" /\ ev.err = "") => table = Empty
AbsInv ==
  /\ data = SubSeq(st.inp, st.off0 + 1, Len(st.inp))
  /\ off = st.off0 /\ off + w = st.w
  /\ Len(data) <= cf.B
Inv == TableSound /\ Unused /\ ResetClean /\ AbsInv /\ PStateOk(st)

(* history output: every transition in the small scopes, a random sample    *)
(* (one in EmitEvery) in the large ones - the model check itself always     *)
(* covers the whole scope                                                    *)
Emit == EmitOps => ((EmitEvery = 1 \/ RandomElement(1..EmitEvery) = 1) => PrintT(<<"VERIF_OPS", ToJson(ops')>>))
=============================================================================
