SPECIFICATION Spec
CONSTANTS
  Sigma = 3
  MaxN = 6
  Variant = "swap"
  EmitOps = FALSE
INVARIANT SwapHarmless
CHECK_DEADLOCK FALSE
