------------------------------ MODULE ParserSM ------------------------------
(***************************************************************************)
(* Envelope specification of the lz parsers (HP, BHP, DHP, BDHP, BUP,      *)
(* GSAP, OSAP) together with the ParserBuffer they embed:                  *)
(* properties C01 C02 C03 C11 C12 C14 C15 C16 C19.                         *)
(*                                                                         *)
(* Abstract state (a record):                                              *)
(*   inp    bytes accepted since the last Reset (Write / ReadFrom / Reset) *)
(*   off0   absolute offset of the first retained byte (discarded so far)  *)
(*   w      absolute parse position: inp[1..w] has been parsed or skipped  *)
(*   nils   1 iff Parse(nil) was called since the last Reset, else 0        *)
(*   c      configuration as the parser reports it after construction:     *)
(*          kind, B (BufferSize), S (ShrinkSize), Wnd (WindowSize),        *)
(*          Blk (BlockSize), il (InputLen resp. InputLen1),                *)
(*          mm (MinMatchLen), xm (MaxMatchLen)                             *)
(* Positions are absolute stream offsets, never slice indices.  What a     *)
(* decoder holds after the blocks emitted so far is SubSeq(inp, 1, w)      *)
(* (emitted blocks expanded, skipped blocks verbatim), so the round trip   *)
(* (C01), contiguity (C03) and skipping (C14) are one equation per block.  *)
(*                                                                         *)
(* Which matches a parser finds is left open; only maximality (C19), the   *)
(* greedy-longest rule (C12, GSAP) and cost optimality (C11, OSAP)         *)
(* constrain it.  `heavy` selects the cubic oracles (C11, C12).            *)
(***************************************************************************)
EXTENDS LZ77

HashKinds == {"HP", "BHP", "DHP", "BDHP", "BUP"}

(* the brute-force oracles of C12 are cubic: above this many buffered bytes *)
(* the check works with counter-witnesses proposed by the harness instead  *)
OracleMax == 300
BackKinds == {"BHP", "BDHP"}

PInit(c) == [inp |-> <<>>, off0 |-> 0, w |-> 0, nils |-> 0, c |-> c]

MinM(c) == IF c.kind \in HashKinds THEN Min(3, c.il) ELSE c.mm

Buffered(st) == Len(st.inp) - st.off0
Unparsed(st) == Len(st.inp) - st.w

(* byte at absolute 0-based offset x *)
At(st, x) == st.inp[x + 1]

Concat4(calls) ==  \* bytes handed out by the reader calls <<lenp, k, err, bytes>>
  LET RECURSIVE cc(_, _)
      cc(i, acc) == IF i > Len(calls) THEN acc ELSE cc(i + 1, acc \o calls[i][4])
  IN cc(1, <<>>)

(***************************************************************************)
(* Per-sequence checks.  pos = absolute 0-based start of the match.        *)
(***************************************************************************)
SeqRules(st, s, pos, blockEnd, scanEnd, heavy) ==
  LET c == st.c
      e == pos + MLen(s)            \* absolute end of the match (exclusive)
  IN {
    <<"C02.off_min",    Off(s) >= 1>>,
    <<"C02.off_window", Off(s) <= c.Wnd>>,
    <<"C02.off_pos",    Off(s) <= pos>>,
    <<"C02.len_min",    MLen(s) >= MinM(c)>>,
    <<"C02.len_max",    c.kind = "OSAP" => MLen(s) <= c.xm>>,
    <<"C02.aux",        Aux(s) = 0>>,
    (* C19: the match cannot be extended to the right *)
    <<"C19.right_maximal",
      (c.kind # "OSAP" /\ Off(s) >= 1 /\ Off(s) <= pos /\ e <= blockEnd)
        => (e = blockEnd \/ At(st, e) # At(st, e - Off(s)))>>,
    (* C19: backward extending parsers leave no equal literal in front *)
    <<"C19.left_maximal",
      (c.kind \in BackKinds /\ Lit(s) > 0 /\ Off(s) >= 1 /\ pos - 1 - Off(s) >= st.off0)
        => At(st, pos - 1) # At(st, pos - 1 - Off(s))>>,
    (* C12: GSAP takes the longest match available in the buffered data *)
    <<"C12.match_longest",
      ("C12" \in heavy /\ c.kind = "GSAP" /\ st.nils = 0 /\ Buffered(st) <= OracleMax)
        => MLen(s) = LPM(st.inp, st.off0, pos, scanEnd)>>
  }

RECURSIVE SeqsRulesAcc(_, _, _, _, _, _, _, _)
SeqsRulesAcc(st, seqs, i, pos0, blockEnd, scanEnd, heavy, acc) ==
  IF i > Len(seqs) THEN acc
  ELSE LET s == seqs[i]
           pos == pos0 + Lit(s)
       IN SeqsRulesAcc(st, seqs, i + 1, pos + MLen(s), blockEnd, scanEnd, heavy,
                       acc \cup SeqRules(st, s, pos, blockEnd, scanEnd, heavy))

(* Positions of the block emitted as literals (absolute, 0-based).         *)
RECURSIVE LitPositions(_, _, _, _, _)
LitPositions(seqs, i, pos0, blockEnd, acc) ==
  IF i > Len(seqs) THEN acc \cup (pos0 .. blockEnd - 1)
  ELSE LET s == seqs[i]
       IN LitPositions(seqs, i + 1, pos0 + Lit(s) + MLen(s), blockEnd,
                       acc \cup (pos0 .. pos0 + Lit(s) - 1))

AllEqual(t, a, b) == \A i \in a + 1 .. b : t[i] = t[a + 1]   \* bytes a..b-1 (0-based) equal

(***************************************************************************)
(* Cost-optimal parse (C11).  best[s] for s = blockEnd down to w.          *)
(* For position s and length m the cheapest match is the nearest source    *)
(* (XZCost is monotone in the offset); sources lie in the buffered data    *)
(* and inside the window.                                                  *)
(***************************************************************************)
RECURSIVE EdgeMin(_, _, _, _, _, _, _, _)
\* minimum over matches starting at s: scans sources j = s-1 down to lo,
\* lengths (maxl, Lcp] get offset s-j; cost = XZCost(m, s-j) + best[s+m]
EdgeMin(t, s, j, lo, lim, maxl, best, cur) ==
  IF j < lo \/ maxl >= lim.maxm THEN cur
  ELSE LET l  == Min(Lcp(t, s, j, lim.blockEnd), lim.maxm)
           RECURSIVE lens(_, _)
           lens(m, c2) == IF m > l THEN c2
                          ELSE lens(m + 1, Min(c2, XZCost(m, s - j) + best[s + m - lim.w0 + 1]))
           c3 == IF l > maxl THEN lens(Max(maxl + 1, lim.minm), cur) ELSE cur
       IN EdgeMin(t, s, j - 1, lo, lim, Max(maxl, l), best, c3)

RECURSIVE OptAcc(_, _, _, _, _)
\* best is a tuple indexed 1..(blockEnd - w0 + 1) filled from the right;
\* unfilled entries are irrelevant. Returns best[1] = optimal cost of the block.
OptAcc(t, s, lim, off0, best) ==
  IF s < lim.w0 THEN best[1]
  ELSE LET lit == 9 + best[s + 1 - lim.w0 + 1]
           lo  == Max(off0, s - lim.wnd)
           mt  == EdgeMin(t, s, s - 1, lo, lim, 0, best, lit)
       IN OptAcc(t, s - 1, lim, off0, [best EXCEPT ![s - lim.w0 + 1] = mt])

OptCost(t, off0, w0, blockEnd, wnd, minm, maxm) ==
  LET n   == blockEnd - w0
      lim == [w0 |-> w0, blockEnd |-> blockEnd, wnd |-> wnd, minm |-> minm, maxm |-> maxm]
      b0  == [i \in 1..n + 1 |-> 0]
  IN IF n = 0 THEN 0 ELSE OptAcc(t, blockEnd - 1, lim, off0, b0)

(***************************************************************************)
(* An upper bound that is affordable on long blocks (C11): a WITNESS parse *)
(* of the same block, proposed by the harness (a greedy parse computed in  *)
(* Go - untrusted).  TLC checks that the witness is one of the parses the  *)
(* optimum ranges over (it expands to the block, every match lies in       *)
(* window and buffer and has an admissible length); then a minimum-cost    *)
(* block cannot cost more than the witness.  An invalid witness proves     *)
(* nothing and is reported as a harness problem (C00), never as a          *)
(* violation.                                                              *)
(***************************************************************************)
RECURSIVE WitSeqsOk(_, _, _, _, _)
WitSeqsOk(st, seqs, i, pos0, blockEnd) ==
  IF i > Len(seqs) THEN TRUE
  ELSE LET s == seqs[i]
           pos == pos0 + Lit(s)
       IN /\ IsSeqRec(s)
          /\ Off(s) >= 1 /\ Off(s) <= st.c.Wnd /\ pos - Off(s) >= st.off0
          /\ MLen(s) >= st.c.mm /\ MLen(s) <= st.c.xm
          /\ pos + MLen(s) <= blockEnd
          /\ WitSeqsOk(st, seqs, i + 1, pos + MLen(s), blockEnd)

WitnessValid(st, alt, n) ==
  LET h == SubSeq(st.inp, 1, st.w) IN
  /\ LitSum(alt.seqs) <= Len(alt.lits)
  /\ BlockLen(alt.seqs, alt.lits) = n
  /\ WitSeqsOk(st, alt.seqs, 1, st.w, st.w + n)
  /\ ExpandDefined(h, alt.seqs, alt.lits)
  /\ Expand(h, alt.seqs, alt.lits) = SubSeq(st.inp, 1, st.w + n)

(***************************************************************************)
(* Rules per event.                                                        *)
(***************************************************************************)
ErrOk(e, S) == e.err \in S

RoundTrip(st, e) ==
  LET h == SubSeq(st.inp, 1, st.w) IN
  /\ ExpandDefined(h, e.seqs, e.lits)
  /\ Expand(h, e.seqs, e.lits) = SubSeq(st.inp, 1, st.w + e.n)

RECURSIVE MatchAt(_, _, _, _)
MatchAt(seqs, i, pos0, x) ==        \* length of the match that starts at absolute position x (0: none)
  IF i > Len(seqs) THEN 0
  ELSE LET pos == pos0 + Lit(seqs[i]) IN
       IF pos = x THEN MLen(seqs[i]) ELSE MatchAt(seqs, i + 1, pos + MLen(seqs[i]), x)

CwValid(st, e, cw, blockEnd, scanEnd) ==
  LET x == cw[1]
      j == cw[2]
      l == cw[3]
  IN /\ j >= st.off0 /\ j < x /\ x >= st.w /\ x < blockEnd /\ l >= 1 /\ x + l <= scanEnd
     /\ SubSeq(st.inp, j + 1, j + l) = SubSeq(st.inp, x + 1, x + l)
     /\ \/ (MatchAt(e.seqs, 1, st.w, x) > 0 /\ MatchAt(e.seqs, 1, st.w, x) < l)
        \/ (st.c.B <= st.c.Wnd /\ l >= st.c.mm /\ x \in LitPositions(e.seqs, 1, st.w, blockEnd, {}))

ParseRules(st, e, heavy) ==
  LET c  == st.c
      un == Unparsed(st)
      scanEnd == st.w + Min(c.Blk, un)
  IN IF un = 0 \/ e.err # ""
     THEN {
       <<"C03.empty_iff",   (e.err = "empty") <=> (un = 0)>>,
       <<"C16.err_documented", e.err \in {"", "empty"}>>,
       <<"C03.empty_block", e.err = "empty" => (e.n = 0 /\ e.seqs = <<>> /\ e.lits = <<>>)>>
     }
     ELSE LET okshape == /\ e.n \in 1..Min(c.Blk, un)
                         /\ \A i \in 1..Len(e.seqs) : IsSeqRec(e.seqs[i])
                         /\ LitSum(e.seqs) <= Len(e.lits)
                         /\ BlockLen(e.seqs, e.lits) = e.n
              blockEnd == st.w + e.n
          IN {
       <<"C03.n_range",   e.n >= 1 /\ e.n <= Min(c.Blk, un)>>,
       <<"C02.litsum",    LitSum(e.seqs) <= Len(e.lits)>>,
       <<"C03.block_len", BlockLen(e.seqs, e.lits) = e.n>>,
       <<"C03.ntl_no_trailing",
         (e.flags = 1 /\ e.seqs # <<>>) => LitSum(e.seqs) = Len(e.lits)>>
     } \cup (IF ~okshape THEN {} ELSE
     {
       (* C01: the block expands, on top of everything a decoder already   *)
       (* holds, to exactly the next n bytes of the input                  *)
       <<"C01.expand", RoundTrip(st, e)>>,
       (* C14: blocks parsed after a skipped block remain correct for a     *)
       (* decoder that received the skipped bytes verbatim                  *)
       <<"C14.block_after_skip", st.nils > 0 => RoundTrip(st, e)>>,
       (* C19: a block inside a run of one byte is compressed *)
       <<"C19.run_literals",
         (e.flags = 0 /\ e.n >= 32 /\ AllEqual(st.inp, st.w, blockEnd) /\ (c.kind \in HashKinds \/ c.mm <= 8))
           => Len(e.lits) <= (IF c.kind \in HashKinds THEN 1 ELSE c.mm)>>,
       (* C12: with the whole buffer inside the window a literal is justified *)
       <<"C12.literal_justified",
         ("C12" \in heavy /\ c.kind = "GSAP" /\ st.nils = 0 /\ c.B <= c.Wnd /\ Buffered(st) <= OracleMax)
           => \A q \in LitPositions(e.seqs, 1, st.w, blockEnd, {}) :
                LPM(st.inp, st.off0, q, scanEnd) < c.mm>>,
       (* C12 on long buffers: a counter-witness <<position, source, length>>  *)
       (* proposed by the harness counts only if TLC finds it valid: the       *)
       (* source lies in the retained buffer in front of the position, the     *)
       (* bytes agree for `length` bytes inside the scanned range, and the     *)
       (* position is a match start with a shorter match, or (buffer no larger *)
       (* than the window) a literal position with length >= MinMatchLen       *)
       <<"C12.no_longer_match",
         ("C12" \in heavy /\ c.kind = "GSAP" /\ st.nils = 0 /\ "cw" \in DOMAIN e)
           => \A k \in 1..Len(e.cw) : ~CwValid(st, e, e.cw[k], blockEnd, scanEnd)>>,
       (* C11: no cheaper parse of the same block exists *)
       <<"C11.cost_optimal",
         ("C11" \in heavy /\ c.kind = "OSAP" /\ e.flags = 0 /\ e.n <= 80)
           => BlockCost(e.seqs, e.lits) =
                OptCost(st.inp, st.off0, st.w, blockEnd, c.Wnd, c.mm, c.xm)>>,
       (* long blocks: the cubic optimum is out of reach; a minimum-cost    *)
       (* parse never costs more than a valid witness parse                 *)
       <<"C00.witness_invalid",
         ("C11" \in heavy /\ c.kind = "OSAP" /\ e.flags = 0 /\ "alt" \in DOMAIN e)
           => WitnessValid(st, e.alt, e.n)>>,
       <<"C11.not_above_witness",
         ("C11" \in heavy /\ c.kind = "OSAP" /\ e.flags = 0 /\ "alt" \in DOMAIN e /\ WitnessValid(st, e.alt, e.n))
           => BlockCost(e.seqs, e.lits) <= BlockCost(e.alt.seqs, e.alt.lits)>>
     } \cup SeqsRulesAcc(st, e.seqs, 1, st.w, blockEnd, scanEnd, heavy, {}))

BufRange(st, off) == off - st.off0   \* index into the retained data

PRules(st, e, heavy) ==
  LET c == st.c
      L == Buffered(st)
  IN
  CASE e.op = "write" ->
      LET avail == c.B - L IN {
      <<"C15.write_n",        e.n = Min(Len(e.p), avail)>>,
      <<"C15.write_full_iff", e.err = (IF Len(e.p) > avail THEN "full" ELSE "")>> }
    [] e.op = "readfrom" ->
      LET nc    == Len(e.calls)
          acc   == Concat4(e.calls)
          lastE == IF nc = 0 THEN "" ELSE e.calls[nc][3]
      IN {
      <<"C15.readfrom_n",     e.n = Len(acc)>>,
      <<"C15.readfrom_bound", L + Len(acc) <= c.B>>,
      <<"C15.readfrom_calls", \A i \in 1..nc :
                                 /\ e.calls[i][2] = Len(e.calls[i][4])
                                 /\ e.calls[i][2] <= e.calls[i][1]
                                 /\ (i < nc => e.calls[i][3] = "")>>,
      <<"C15.readfrom_err",   IF lastE # "" THEN e.err = lastE
                              ELSE e.err = "full" /\ L + Len(acc) = c.B>> }
    [] e.op = "parse" -> ParseRules(st, e, heavy)
    [] e.op = "parsenil" -> {
      <<"C14.n",         e.n = Min(c.Blk, Unparsed(st))>>,
      <<"C14.empty_iff", e.err = (IF Unparsed(st) = 0 THEN "empty" ELSE "")>>,
      \* C03 speaks of every Parse call, the skipping ones included: the two
      \* clauses below are implied by C14.n / C14.empty_iff (never stricter).
      <<"C03.empty_iff", (e.err = "empty") <=> (Unparsed(st) = 0)>>,
      <<"C03.n_range",   IF Unparsed(st) = 0 \/ e.err # "" THEN e.err = "empty" => e.n = 0
                         ELSE e.n >= 1 /\ e.n <= Min(c.Blk, Unparsed(st))>> }
    [] e.op = "shrink" -> {
      <<"C15.shrink_delta", e.delta = Max(0, (st.w - st.off0) - c.S)>> }
    [] e.op = "reset" -> {
      <<"C15.reset_err", (e.err # "") <=> (Len(e.data) > c.B)>>,
      <<"C16.err_documented", e.err \in {"", "oversize"}>> }
    [] e.op = "readat" ->
      LET i == BufRange(st, e.off) IN
      IF i < 0 \/ i > L THEN {
        <<"C15.readat_range", e.err = "outofbuffer" /\ e.n = 0>> }
      ELSE IF i = L THEN {
        (* exactly at the end: outside the retained range and past the end *)
        <<"C15.readat_range", e.n = 0 /\ e.err \in (IF e.lenp = 0 THEN {"", "outofbuffer", "endofbuffer"}
                                                     ELSE {"outofbuffer", "endofbuffer"})>> }
      ELSE {
        <<"C15.readat_bytes", /\ e.n = Min(e.lenp, L - i)
                              /\ e.bytes = SubSeq(st.inp, e.off + 1, e.off + e.n)>>,
        <<"C15.readat_end",   e.err = (IF e.lenp > L - i THEN "endofbuffer" ELSE "")>> }
    [] e.op = "byteat" ->
      LET i == BufRange(st, e.off) IN {
      <<"C15.byteat",
        IF i >= 0 /\ i < L THEN e.err = "" /\ e.c = At(st, e.off)
        ELSE IF i = L THEN e.err = "endofbuffer"
        ELSE e.err = "outofbuffer">> }
    [] e.op = "panic" ->
      { <<"C16.no_panic", FALSE>> }
      \cup (IF e.in \in {"write", "readfrom", "shrink", "reset", "readat", "byteat", "peekat"}
            THEN {<<"C15.no_panic", FALSE>>} ELSE {})
      \cup (IF e.in = "parsenil" THEN {<<"C14.no_panic", FALSE>>} ELSE {})
      \* a block parsed after a skipped one must be a correct block: a Parse
      \* that panics after Parse(nil) does not deliver one
      \cup (IF e.in = "parse" /\ st.nils > 0 THEN {<<"C14.block_after_skip", FALSE>>} ELSE {})
    [] e.op = "timeout" -> { <<"C16.no_hang", FALSE>> }
    [] e.op = "livelock" -> { <<"C16.no_hang", FALSE>> }
    [] OTHER -> { <<"C00.unknown_op", FALSE>> }

PWhy(st, e, heavy) == { r[1] : r \in { x \in PRules(st, e, heavy) : ~x[2] } }

(* Successor state, taking the results for what the envelope leaves open.  *)
PEff(st, e) ==
  CASE e.op = "write"    -> [st EXCEPT !.inp = @ \o SubSeq(e.p, 1, Min(Max(e.n, 0), Len(e.p)))]
    [] e.op = "readfrom" -> [st EXCEPT !.inp = @ \o Concat4(e.calls)]
    [] e.op = "parse"    -> [st EXCEPT !.w = @ + e.n]
    [] e.op = "parsenil" -> [st EXCEPT !.w = @ + e.n, !.nils = 1]
    [] e.op = "shrink"   -> [st EXCEPT !.off0 = @ + e.delta]
    [] e.op = "reset"    -> IF e.err = "" THEN [PInit(st.c) EXCEPT !.inp = e.data] ELSE st
    [] OTHER -> st

PStateOk(st) ==
  /\ 0 <= st.off0 /\ st.off0 <= st.w /\ st.w <= Len(st.inp)
  /\ Buffered(st) <= st.c.B
=============================================================================
