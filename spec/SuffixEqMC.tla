----------------------------- MODULE SuffixEqMC -----------------------------
(***************************************************************************)
(* Design-level check for C09: on every text over Alpha of length <= MaxN  *)
(* and EVERY permutation sa of its positions, the linear rank-based        *)
(* suffix-array checker (used on long recorded texts) agrees with the      *)
(* definition, and the SubSeq form of the LCP check agrees with the        *)
(* definitional one on the true suffix array.  Every initial state is one  *)
(* (t, sa); there are no transitions.  The states also serve as the        *)
(* small-scope inputs replayed into the real suffix.Sort (one script       *)
(* operation per distinct text).                                           *)
(***************************************************************************)
EXTENDS SuffixDefs, SequencesExt, Json

CONSTANTS Alpha, MaxN, EmitOps

VARIABLES t, sa
vars == <<t, sa>>

RECURSIVE SeqsUpTo(_, _)
SeqsUpTo(S, n) == IF n = 0 THEN {<<>>} ELSE SeqsUpTo(S, n - 1) \cup [1..n -> S]

Perms(n) == { p \in [1..n -> 0..n - 1] : \A i, j \in 1..n : i # j => p[i] # p[j] }

Init == t \in SeqsUpTo(Alpha, MaxN) /\ sa \in Perms(Len(t))
Next == UNCHANGED vars
Spec == Init /\ [][Next]_vars

InvOf(p) == [j \in 1..Len(p) |-> (CHOOSE i \in 1..Len(p) : p[i] = j - 1) - 1]

(* the definitional suffix array by sorting *)
TrueSA(x) == SortSeq([i \in 1..Len(x) |-> i - 1], LAMBDA a, b : SuffixLess(x, a, b))
TrueLCP(x, p) == [i \in 1..Len(p) |-> IF i = 1 THEN 0 ELSE SLcp(x, p[i - 1], p[i])]

CheckerAgrees == IsSA(t, sa) <=> IsSAlinear(t, sa, InvOf(sa))
Unique == IsSA(t, sa) => sa = TrueSA(t)
LcpFormsAgree ==
  IsSA(t, sa) =>
    /\ IsLCP(t, sa, TrueLCP(t, sa))
    /\ \A i \in 2..Len(sa), d \in {-1, 1} :
         LET bad == [TrueLCP(t, sa) EXCEPT ![i] = @ + d] IN ~IsLCP(t, sa, bad)

Emit == (EmitOps /\ sa = TrueSA(t)) => PrintT(<<"VERIF_OPS", ToJson(<<[op |-> "suffix", t |-> t]>>)>>)
Inv == CheckerAgrees /\ Unique /\ LcpFormsAgree /\ Emit
=============================================================================
