SPECIFICATION Spec
CONSTANTS
  Alpha = {0, 1, 2}
  MaxN = 9
  Variant = "code"
INVARIANT Inv
CHECK_DEADLOCK FALSE
