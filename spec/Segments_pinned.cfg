SPECIFICATION Spec
CONSTANTS
  Alpha = {0, 1}
  MaxN = 7
  MaxLen = 3
  Variant = "pinned"
  EmitOps = FALSE
INVARIANT Inv
PROPERTY Terminates
CHECK_DEADLOCK FALSE
