SPECIFICATION Spec
CONSTANTS
  Sigma = 3
  MaxN = 7
  Variant = "code"
  EmitOps = FALSE
INVARIANT Inv
CHECK_DEADLOCK FALSE
