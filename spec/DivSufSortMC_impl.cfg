SPECIFICATION Spec
CONSTANTS
  Sigma = 2
  MaxN = 12
  Variant = "impl"
  EmitOps = FALSE
INVARIANT Inv
CHECK_DEADLOCK FALSE
