SPECIFICATION Spec
CONSTANTS
  Alpha = {0, 1}
  Scope = "quick"
  MaxInp = 7
  MaxWrite = 3
  Variant = "noreset"
  EmitOps = FALSE
  Backward = FALSE
  EmitEvery = 1
INVARIANT Inv
PROPERTY Refines

VIEW View
CHECK_DEADLOCK FALSE
