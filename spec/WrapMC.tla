------------------------------- MODULE WrapMC -------------------------------
(***************************************************************************)
(* Implementation-shaped model of lz.WrappedParser.Parse (wrap.go:31-45)   *)
(* over the transcribed ParserBuffer (parser_buffer.go) with an abstract   *)
(* inner parser (emits the next Min(BlockSize, unparsed) bytes as          *)
(* literals) and the io.Reader as environment:                             *)
(*                                                                         *)
(*   for { n, err = inner.Parse(blk, flags)          -- step "parse"       *)
(*         if err != ErrEmptyBuffer { return }                             *)
(*         inner.Shrink()                            -- step "shrink"      *)
(*         k, err := inner.ReadFrom(r)               -- steps "fill" (one  *)
(*         if k == 0 { return 0, err } }                per reader call)   *)
(*                                                                         *)
(* Reader environment: it still has `todo` bytes to hand out; every call   *)
(* it chooses how many (1..min(len(p), todo), short reads), whether to     *)
(* fail (with or without data), whether to deliver the last bytes together *)
(* with io.EOF; once it said EOF it keeps saying (0, EOF).  It never       *)
(* returns (0, nil).  Source bytes are 1, 2, 3, ... so that any loss,      *)
(* duplication or reordering changes the delivered stream.                 *)
(*                                                                         *)
(* TLC checks for every geometry (incl. ShrinkSize = BufferSize), every    *)
(* chunking and every fault placement: each completed call is allowed by   *)
(* the Wrap envelope (C08), the buffer never exceeds BufferSize, and every *)
(* call terminates (liveness, no state constraint).                        *)
(***************************************************************************)
EXTENDS Wrap, Json

CONSTANTS Bs, Blks, MaxSrc, EmitOps, AllowFaults

VARIABLES b,      \* [data, w, off, B, S, Blk] as ParserBufMC
          todo,   \* bytes the reader has not handed out yet
          reof,   \* reader has returned io.EOF
          pc,     \* "idle" | "parse" | "shrink" | "fill"
          cur,    \* [flags, nil] of the call in progress
          reads,  \* reader calls of the call in progress
          fill0,  \* Len(b.data) when the current ReadFrom started
          ws,     \* envelope state
          ev,     \* last completed event
          ops     \* generation history (script)

vars == <<b, todo, reof, pc, cur, reads, fill0, ws, ev, ops>>
View == <<b, todo, reof, pc, cur, reads, fill0, ws>>

Cfg(B, S, Blk) == [kind |-> "HP", B |-> B, S |-> S, Wnd |-> 8, Blk |-> Blk, il |-> 3, mm |-> 3, xm |-> 3]

Init ==
  /\ \E B \in Bs, S \in 0..4, Blk \in Blks, n \in 0..MaxSrc :
       /\ S <= B
       /\ S > 0 \/ B = 1
       /\ b = [data |-> <<>>, w |-> 0, off |-> 0, B |-> B, S |-> S, Blk |-> Blk]
       /\ todo = [i \in 1..n |-> i]
       /\ ws = WInit(Cfg(B, S, Blk))
       /\ ops = <<[op |-> "begin", kind |-> "ANY", BufferSize |-> B, ShrinkSize |-> S, BlockSize |-> Blk,
                   WindowSize |-> 8, src |-> [i \in 1..n |-> i]]>>
  /\ reof = FALSE /\ pc = "idle" /\ cur = [flags |-> 0, nil |-> FALSE]
  /\ reads = <<>> /\ fill0 = 0 /\ ev = [op |-> "begin"]

Call ==
  /\ pc = "idle"
  /\ \E fl \in {0, 1}, nl \in BOOLEAN :
       /\ cur' = [flags |-> fl, nil |-> nl]
       /\ ops' = IF EmitOps THEN Append(ops, [op |-> IF nl THEN "wparsenil" ELSE "wparse", flags |-> fl]) ELSE ops
  /\ pc' = "parse" /\ reads' = <<>>
  /\ UNCHANGED <<b, todo, reof, fill0, ws, ev>>

Finish(n, err, blkLits, rds) ==
  LET e == IF cur.nil
           THEN [op |-> "wparsenil", flags |-> cur.flags, n |-> n, err |-> err, reads |-> rds]
           ELSE [op |-> "wparse", flags |-> cur.flags, n |-> n, err |-> err, seqs |-> <<>>, lits |-> blkLits,
                 reads |-> rds]
  IN /\ ev' = e
     /\ ws' = WEff(ws, e)
     /\ pc' = "idle" /\ reads' = <<>>

StepParse ==
  /\ pc = "parse"
  /\ LET n == Min(Len(b.data) - b.w, b.Blk) IN
     IF n > 0
     THEN /\ b' = [b EXCEPT !.w = @ + n]
          /\ Finish(n, "", SubSeq(b.data, b.w + 1, b.w + n), reads)
          /\ UNCHANGED <<todo, reof, cur, fill0, ops>>
     ELSE /\ pc' = "shrink"
          /\ UNCHANGED <<b, todo, reof, cur, reads, fill0, ws, ev, ops>>

StepShrink ==
  /\ pc = "shrink"
  /\ LET delta == b.w - b.S IN
     b' = IF delta <= 0 THEN b
          ELSE [b EXCEPT !.data = SubSeq(@, delta + 1, Len(@)), !.w = b.S, !.off = @ + delta]
  /\ fill0' = Len(b'.data)
  /\ pc' = "fill"
  /\ UNCHANGED <<todo, reof, cur, reads, ws, ev, ops>>

(* end of ReadFrom: k = bytes read by this ReadFrom *)
EndFill(data, err, rds) ==
  IF Len(data) - fill0 = 0
  THEN /\ b' = [b EXCEPT !.data = data]
       /\ Finish(0, err, <<>>, rds)
       /\ UNCHANGED <<cur, fill0>>
  ELSE /\ b' = [b EXCEPT !.data = data]
       /\ pc' = "parse" /\ reads' = rds
       /\ UNCHANGED <<cur, fill0, ws, ev>>

(* one iteration of the ReadFrom loop: full check, then one reader call *)
StepFill ==
  /\ pc = "fill"
  /\ IF Len(b.data) >= b.B
     THEN /\ EndFill(b.data, "full", reads)
          /\ UNCHANGED <<todo, reof, ops>>
     ELSE LET lenp == b.B - Len(b.data) IN
          \E k \in 0..Min(lenp, Len(todo)), ec \in {"", "eof", "reader"} :
            /\ ec = "reader" => AllowFaults
            /\ reof => (k = 0 /\ ec = "eof")            \* sticky EOF
            /\ ec = "eof" => k = Len(todo)              \* EOF only with the last bytes or after them
            /\ (k = 0 /\ ec = "") => FALSE              \* never (0, nil)
            /\ LET got == SubSeq(todo, 1, k)
                   rds == Append(reads, <<lenp, k, ec, got>>)
                   data == b.data \o got
               IN /\ todo' = SubSeq(todo, k + 1, Len(todo))
                  /\ reof' = (reof \/ ec = "eof")
                  /\ ops' = IF EmitOps
                            THEN Append(ops, [op |-> "r", k |-> k, ec |-> ec])
                            ELSE ops
                  /\ IF ec # "" THEN EndFill(data, ec, rds)
                     ELSE /\ b' = [b EXCEPT !.data = data]
                          /\ reads' = rds
                          /\ UNCHANGED <<pc, cur, fill0, ws, ev>>

Step == StepParse \/ StepShrink \/ StepFill
Next == Call \/ Step
Spec == Init /\ [][Next]_vars /\ WF_vars(Step)

(* ---- properties ---- *)
Refines == [][(pc # "idle" /\ pc' = "idle") => WWhy(ws, ev') = {}]_vars
Bounded == Len(b.data) <= b.B
AbsInv ==
  /\ b.data \o todo = [i \in 1..(Len(b.data) + Len(todo)) |-> b.off + i]     \* nothing lost, duplicated, reordered
  /\ pc = "idle" => (b.off + b.w = ws.del /\ b.off + Len(b.data) = Len(ws.src))
Inv == Bounded /\ AbsInv /\ WStateOk(ws)
Terminates == (pc # "idle") ~> (pc = "idle")
(* with ShrinkSize < BufferSize the loop never reports ErrFullBuffer *)
NoFull == (pc = "idle" /\ ev.op \in {"wparse", "wparsenil"} /\ b.S < b.B) => ev.err # "full"

Emit == EmitOps => PrintT(<<"VERIF_OPS", ToJson(ops')>>)
=============================================================================
