SPECIFICATION Spec
CONSTANTS
  Alpha = {0, 1}
  MaxN = 9
INVARIANT Inv
CHECK_DEADLOCK FALSE
