SPECIFICATION Spec
CONSTANTS
  Bs = {2, 3, 4, 6, 9}
  Blks = {1, 2, 3, 5}
  MaxSrc = 30
  EmitOps = TRUE
  AllowFaults = TRUE
INVARIANTS Inv
ACTION_CONSTRAINT Emit
CHECK_DEADLOCK FALSE
