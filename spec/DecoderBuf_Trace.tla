-------------------------- MODULE DecoderBuf_Trace --------------------------
(***************************************************************************)
(* Trace validation of recorded lz.DecoderBuffer executions against the    *)
(* DecoderBuf envelope.  Monitor style: the file VERIF_TRACE holds many    *)
(* traces (each starts with a "begin" event); a rejected trace is recorded *)
(* (trace id, line, names of the broken rules) and its remaining events    *)
(* are skipped, so one TLC run judges hundreds of traces.                  *)
(***************************************************************************)
EXTENDS DecoderBuf, Json, IOUtils

Trace == ndJsonDeserialize(IOEnv.VERIF_TRACE)

VARIABLES l, st, bad, tid
vars == <<l, st, bad, tid>>

TraceInit ==
  /\ l = 1
  /\ st = DInit(0)
  /\ bad = 0
  /\ tid = ""
  /\ TLCSet(1, <<>>)

TraceNext ==
  /\ l <= Len(Trace)
  /\ l' = l + 1
  /\ LET e == Trace[l] IN
     IF e.op = "begin"
     THEN /\ tid' = e.tid
          /\ st' = DInit(e.W)
          /\ bad' = 0
     ELSE IF bad # 0 \/ e.op = "end"
     THEN UNCHANGED <<tid, st, bad>>
     ELSE LET why == Why(st, e) IN
          IF why = {}
          THEN /\ st' = Eff(st, e)
               /\ UNCHANGED <<tid, bad>>
          ELSE /\ bad' = l
               /\ UNCHANGED <<tid, st>>
               /\ TLCSet(1, Append(TLCGet(1), [tid |-> tid, line |-> l, why |-> why]))

TraceSpec == TraceInit /\ [][TraceNext]_vars

(* Sanity of the abstract state in every reached state (C04).              *)
TraceInv == bad # 0 \/ StateOk(st)

Post ==
  /\ PrintT(<<"VERIF_BAD", ToJson(TLCGet(1))>>)
  /\ PrintT(<<"VERIF_LINES", TLCGet("stats").diameter - 1, Len(Trace)>>)
=============================================================================
