----------------------------- MODULE BitsetDefs -----------------------------
(***************************************************************************)
(* Set semantics of lz's bitset: the definitions shared by the             *)
(* implementation-shaped model (Bitset.tla) and the trace specification    *)
(* (Bitset_Trace.tla).                                                     *)
(***************************************************************************)
EXTENDS Integers, Sequences, FiniteSets, TLC

(* ---- definition on the abstract set ---- *)
DefBefore(T, i) == LET c == { x \in T : x < i } IN IF c = {} THEN -1 ELSE CHOOSE x \in c : \A y \in c : y <= x
DefAfter(T, i)  == LET c == { x \in T : x > i } IN IF c = {} THEN -1 ELSE CHOOSE x \in c : \A y \in c : y >= x

(* ---- envelope rules for recorded executions of the real bitset ---- *)
(* event: op, i, members (all members after the call, ascending), before / *)
(* after: the answers of memberBefore / memberAfter for the probes         *)
BRules(T, e) ==
  LET T2 == CASE e.op = "insert" -> T \cup {e.i}
              [] e.op = "delete" -> T \ {e.i}
              [] e.op = "clear"  -> {}
              [] OTHER -> T
      mem2 == { e.members[k] : k \in 1..Len(e.members) }
  IN {
    <<"C12.bitset_members", mem2 = T2 /\ Cardinality(mem2) = Len(e.members)>>,
    <<"C12.bitset_neighbours",
      \A k \in 1..Len(e.probes) :
        /\ e.before[k] = DefBefore(T2, e.probes[k])
        /\ e.after[k] = DefAfter(T2, e.probes[k])>>
  }
BEff(T, e) ==
  CASE e.op = "insert" -> T \cup {e.i}
    [] e.op = "delete" -> T \ {e.i}
    [] e.op = "clear"  -> {}
    [] OTHER -> T

=============================================================================
