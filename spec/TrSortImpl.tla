----------------------------- MODULE TrSortImpl -----------------------------
(***************************************************************************)
(* Implementation-shaped model of the whole rank sort of suffix/trsort.go, *)
(* statement by statement, as pure operators on arrays (functions over     *)
(* 0..len-1), so that the same text serves the model checker (TrSortMC)    *)
(* and the comparison with the real code:                                  *)
(*                                                                         *)
(*   Median3, Median5, Pivot   trMedian3 / trMedian5 / trPivot             *)
(*   Partition                 trPartition (equal keys parked at both ends *)
(*                             and swapped into the middle)                *)
(*   InsSort, HeapSort         trInsertionSort / trHeapSort on a sub-slice *)
(*   Copy, PartialCopy         trCopy / trPartialCopy                      *)
(*   Check                     budget.check                                *)
(*   Intro                     trIntroSort: the explicit-stack multikey    *)
(*                             introsort with its cases -1 (tandem repeat  *)
(*                             partition), -2 (copy), -3 (update ranks,    *)
(*                             go deeper) and the nine push orders         *)
(*   TrSort                    the doubling loop with the skip encoding    *)
(*                                                                         *)
(* OOB marks a read outside an array: the code would panic there.          *)
(***************************************************************************)
EXTENDS Integers, Sequences, FiniteSets, TLC

OOB == -777777
Neg(x) == -x - 1

At(f, i) == IF i \in DOMAIN f THEN f[i] ELSE OOB

RECURSIVE ILog2(_)
ILog2(x) == IF x <= 0 THEN -1 ELSE IF x = 1 THEN 0 ELSE 1 + ILog2(x \div 2)

Swap(f, i, j) == [f EXCEPT ![i] = f[j], ![j] = f[i]]

(* key of the suffix stored at index i of sa: isaD[sa[i]] with isaD = isa[off:] *)
KeyAt(sa, isa, off, i) == At(isa, off + sa[i])

(* ---- medians and pivot ---- *)
Median3(sa, isa, off, v1, v2, v3) ==
  LET y1 == KeyAt(sa, isa, off, v1)
      y2 == KeyAt(sa, isa, off, v2)
      y3 == KeyAt(sa, isa, off, v3)
      sw == y1 > y2
      w1 == IF sw THEN v2 ELSE v1
      w2 == IF sw THEN v1 ELSE v2
      z1 == IF sw THEN y2 ELSE y1
      z2 == IF sw THEN y1 ELSE y2
  IN IF z2 > y3 THEN (IF z1 > y3 THEN w1 ELSE v3) ELSE w2

Median5(sa, isa, off, v1, v2, v3, v4, v5) ==
  LET y1 == KeyAt(sa, isa, off, v1)
      y2 == KeyAt(sa, isa, off, v2)
      y3 == KeyAt(sa, isa, off, v3)
      y4 == KeyAt(sa, isa, off, v4)
      y5 == KeyAt(sa, isa, off, v5)
      \* state <<v1..v5, y1..y5>>
      s0 == <<v1, v2, v3, v4, v5, y1, y2, y3, y4, y5>>
      s1 == IF s0[7] > s0[8] THEN <<s0[1], s0[3], s0[2], s0[4], s0[5], s0[6], s0[8], s0[7], s0[9], s0[10]>> ELSE s0
      s2 == IF s1[9] > s1[10] THEN <<s1[1], s1[2], s1[3], s1[5], s1[4], s1[6], s1[7], s1[8], s1[10], s1[9]>> ELSE s1
      \* if y2 > y4 { v4 = v2; y4 = y2; v3, v5 = v5, v3; y3, y5 = y5, y3 }
      s3 == IF s2[7] > s2[9] THEN <<s2[1], s2[2], s2[5], s2[2], s2[3], s2[6], s2[7], s2[10], s2[7], s2[8]>> ELSE s2
      \* if y1 > y3 { v1, v3 = v3, v1; y1, y3 = y3, y1 }
      s4 == IF s3[6] > s3[8] THEN <<s3[3], s3[2], s3[1], s3[4], s3[5], s3[8], s3[7], s3[6], s3[9], s3[10]>> ELSE s3
      \* if y1 > y4 { v4 = v1; y4 = y1; v3 = v5; y3 = y5 }
      s5 == IF s4[6] > s4[9] THEN <<s4[1], s4[2], s4[5], s4[1], s4[5], s4[6], s4[7], s4[10], s4[6], s4[10]>> ELSE s4
  IN IF s5[8] > s5[9] THEN s5[4] ELSE s5[3]

Pivot(sa, isa, off, first, last) ==
  LET t == last - first
      middle == first + t \div 2
      l1 == last - 1
  IN IF t <= 512
     THEN IF t <= 32 THEN Median3(sa, isa, off, first, middle, l1)
          ELSE LET q == t \div 4 IN Median5(sa, isa, off, first, first + q, middle, l1 - q, l1)
     ELSE LET q == t \div 8
              f1 == Median3(sa, isa, off, first, first + q, first + 2 * q)
              m1 == Median3(sa, isa, off, middle - q, middle, middle + q)
              l2 == Median3(sa, isa, off, l1 - 2 * q, l1 - q, l1)
          IN Median3(sa, isa, off, f1, m1, l2)

(* ---- trPartition: returns [sa, ra, rb] ---- *)
(* p: [f, a, b, c, d, x] *)
RECURSIVE PScanEq(_, _, _, _, _)
PScanEq(p, isa, off, last, v) ==               \* first loop: b over the leading entries equal to v
  IF p.b >= last THEN p
  ELSE LET x == KeyAt(p.f, isa, off, p.b) IN
       IF x # v THEN [p EXCEPT !.x = x] ELSE PScanEq([p EXCEPT !.x = x, !.b = @ + 1], isa, off, last, v)

RECURSIVE PUp(_, _, _, _, _)
PUp(p, isa, off, lim, v) ==                    \* b++ ...; stops at b >= lim or key > v
  LET b1 == p.b + 1 IN
  IF b1 >= lim THEN [p EXCEPT !.b = b1]
  ELSE LET x == KeyAt(p.f, isa, off, b1) IN
       IF x > v THEN [p EXCEPT !.b = b1, !.x = x]
       ELSE IF x = v THEN PUp([p EXCEPT !.b = b1, !.x = x, !.f = Swap(p.f, p.a, b1), !.a = @ + 1], isa, off, lim, v)
       ELSE PUp([p EXCEPT !.b = b1, !.x = x], isa, off, lim, v)

RECURSIVE PDownEq(_, _, _, _)
PDownEq(p, isa, off, v) ==                     \* c--; ... while key = v
  LET c1 == p.c - 1 IN
  IF p.b >= c1 THEN [p EXCEPT !.c = c1]
  ELSE LET x == KeyAt(p.f, isa, off, c1) IN
       IF x # v THEN [p EXCEPT !.c = c1, !.x = x] ELSE PDownEq([p EXCEPT !.c = c1, !.x = x], isa, off, v)

RECURSIVE PDown(_, _, _, _)
PDown(p, isa, off, v) ==                       \* c--; stops at b >= c or key < v
  LET c1 == p.c - 1 IN
  IF p.b >= c1 THEN [p EXCEPT !.c = c1]
  ELSE LET x == KeyAt(p.f, isa, off, c1) IN
       IF x < v THEN [p EXCEPT !.c = c1, !.x = x]
       ELSE IF x = v THEN PDown([p EXCEPT !.c = c1, !.x = x, !.f = Swap(p.f, c1, p.d), !.d = @ - 1], isa, off, v)
       ELSE PDown([p EXCEPT !.c = c1, !.x = x], isa, off, v)

RECURSIVE PMain(_, _, _, _)
PMain(p, isa, off, v) ==
  IF ~(p.b < p.c) THEN p
  ELSE LET p1 == [p EXCEPT !.f = Swap(p.f, p.b, p.c)]
           p2 == PUp(p1, isa, off, p1.c, v)
           p3 == PDown(p2, isa, off, v)
       IN PMain(p3, isa, off, v)

RECURSIVE SwapBlock(_, _, _, _)
SwapBlock(f, e, g, s) == IF s <= 0 THEN f ELSE SwapBlock(Swap(f, e, g), e + 1, g + 1, s - 1)

Partition(sa, isa, off, first, middle, last, v) ==
  LET p0 == PScanEq([f |-> sa, a |-> 0, b |-> middle, c |-> 0, d |-> 0, x |-> 0], isa, off, last, v)
      p1 == [p0 EXCEPT !.a = p0.b]
      p2 == IF p1.a < last /\ p1.x < v THEN PUp(p1, isa, off, last, v) ELSE p1
      p3 == PDownEq([p2 EXCEPT !.c = last], isa, off, v)
      p4 == [p3 EXCEPT !.d = p3.c]
      p5 == IF p4.b < p4.d /\ p4.x > v THEN PDown(p4, isa, off, v) ELSE p4
      p6 == PMain(p5, isa, off, v)
  IN IF p6.a <= p6.d
     THEN LET c  == p6.b - 1
              s1 == IF p6.a - first > p6.b - p6.a THEN p6.b - p6.a ELSE p6.a - first
              f1 == SwapBlock(p6.f, first, p6.b - s1, s1)
              s2a == p6.d - c
              s2b == last - p6.d - 1
              s2 == IF s2a > s2b THEN s2b ELSE s2a
              f2 == SwapBlock(f1, p6.b, last - s2, s2)
          IN [sa |-> f2, ra |-> first + (p6.b - p6.a), rb |-> last - (p6.d - c)]
     ELSE [sa |-> p6.f, ra |-> first, rb |-> last]

(* ---- trInsertionSort / trHeapSort on sa[first..last) ---- *)
RECURSIVE IBack(_, _, _, _, _, _)
IBack(f, isa, off, lo, j, u) ==
  IF j < lo THEN <<f, j>>
  ELSE LET sv == f[j] IN
       IF sv < 0 THEN IBack(f, isa, off, lo, j - 1, u)
       ELSE LET r == u - At(isa, off + sv) IN
            IF r >= 0 THEN <<IF r = 0 THEN [f EXCEPT ![j] = Neg(sv)] ELSE f, j>>
            ELSE IBack(f, isa, off, lo, j - 1, u)

RECURSIVE IIns(_, _, _, _, _, _)
IIns(f, isa, off, lo, hi, i) ==
  IF i >= hi THEN f
  ELSE LET t == f[i]
           b == IBack(f, isa, off, lo, i - 1, At(isa, off + t))
           g == b[1]
           j == b[2] + 1
           h == IF j < i THEN [x \in DOMAIN g |-> IF x = j THEN t ELSE IF x > j /\ x <= i THEN g[x - 1] ELSE g[x]] ELSE g
       IN IIns(h, isa, off, lo, hi, i + 1)
InsSort(sa, isa, off, first, last) == IIns(sa, isa, off, first, last, first + 1)

(* heap sort works on the slice: index i of the slice is first + i *)
RECURSIVE HSift(_, _, _, _, _, _, _, _)
HSift(f, isa, off, lo, i, r, y, k) ==
  LET j == 2 * i + 1 IN
  IF j > r THEN [f EXCEPT ![lo + i] = k]
  ELSE LET u0 == At(isa, off + f[lo + j])
           useR == j < r /\ u0 < At(isa, off + f[lo + j + 1])
           j1 == IF useR THEN j + 1 ELSE j
           p  == f[lo + j1]
           u  == At(isa, off + p)
       IN IF y >= u THEN [f EXCEPT ![lo + i] = k]
          ELSE HSift([f EXCEPT ![lo + i] = p], isa, off, lo, j1, r, y, k)

RECURSIVE HHeap(_, _, _, _, _, _)
HHeap(f, isa, off, lo, l, r) ==
  IF l > 0
  THEN LET k == f[lo + l - 1] IN HHeap(HSift(f, isa, off, lo, l - 1, r, At(isa, off + k), k), isa, off, lo, l - 1, r)
  ELSE LET k  == f[lo + r]
           f1 == [f EXCEPT ![lo + r] = f[lo]]
           r1 == r - 1
       IN IF r1 = 0 THEN [f1 EXCEPT ![lo] = k]
          ELSE HHeap(HSift(f1, isa, off, lo, 0, r1, At(isa, off + k), k), isa, off, lo, 0, r1)

RECURSIVE HMark(_, _, _, _, _, _, _, _)
HMark(f, isa, off, lo, n, i, k, x) ==
  IF i >= n - 1 THEN f
  ELSE LET l == f[lo + i + 1]
           y == At(isa, off + l)
       IN HMark(IF x = y THEN [f EXCEPT ![lo + i] = Neg(k)] ELSE f, isa, off, lo, n, i + 1, l, y)

HeapSort(sa, isa, off, first, last) ==
  LET n == last - first IN
  IF n < 2 THEN sa
  ELSE LET g == HHeap(sa, isa, off, first, n \div 2, n - 1) IN
       HMark(g, isa, off, first, n, 0, g[first], At(isa, off + g[first]))

(* ---- trCopy / trPartialCopy: return <<sa, isa>> ---- *)
RECURSIVE CLoop1(_, _, _, _, _, _, _, _, _)
CLoop1(f, g, depth, v, partial, c, dd, lastrank, newrank) ==
  IF c > dd THEN <<f, g, dd>>
  ELSE LET x == f[c] - depth IN
       IF x >= 0 /\ At(g, x) = v
       THEN LET dd1 == dd + 1
                f1  == [f EXCEPT ![dd1] = x]
            IN IF ~partial THEN CLoop1(f1, [g EXCEPT ![x] = dd1], depth, v, partial, c + 1, dd1, lastrank, newrank)
               ELSE LET rank == At(g, x + depth)
                        nr   == IF lastrank # rank THEN dd1 ELSE newrank
                    IN CLoop1(f1, [g EXCEPT ![x] = nr], depth, v, partial, c + 1, dd1, rank, nr)
       ELSE CLoop1(f, g, depth, v, partial, c + 1, dd, lastrank, newrank)

RECURSIVE CLoop2(_, _, _, _, _, _)
CLoop2(f, g, first, e, lastrank, newrank) ==
  IF e < first THEN g
  ELSE LET rank == g[f[e]]
           nr   == IF lastrank # rank THEN e ELSE newrank
       IN CLoop2(f, IF nr # rank THEN [g EXCEPT ![f[e]] = nr] ELSE g, first, e - 1, rank, nr)

RECURSIVE CLoop3(_, _, _, _, _, _, _, _, _, _)
CLoop3(f, g, depth, v, partial, c, e, dd, lastrank, newrank) ==
  IF ~(e < dd) THEN <<f, g>>
  ELSE IF c < 0 THEN <<f, [g EXCEPT ![0] = OOB]>>
  ELSE LET x == f[c] - depth IN
       IF x >= 0 /\ At(g, x) = v
       THEN LET dd1 == dd - 1
                f1  == [f EXCEPT ![dd1] = x]
            IN IF ~partial THEN CLoop3(f1, [g EXCEPT ![x] = dd1], depth, v, partial, c - 1, e, dd1, lastrank, newrank)
               ELSE LET rank == At(g, x + depth)
                        nr   == IF lastrank # rank THEN dd1 ELSE newrank
                    IN CLoop3(f1, [g EXCEPT ![x] = nr], depth, v, partial, c - 1, e, dd1, rank, nr)
       ELSE CLoop3(f, g, depth, v, partial, c - 1, e, dd, lastrank, newrank)

CopyBoth(sa, isa, first, a, b, last, depth, partial) ==
  LET v  == b - 1
      r1 == CLoop1(sa, isa, depth, v, partial, first, a - 1, -1, -1)
      g2 == IF partial THEN CLoop2(r1[1], r1[2], first, r1[3], -1, -1) ELSE r1[2]
  IN CLoop3(r1[1], g2, depth, v, partial, last - 1, r1[3] + 1, b, -1, -1)
Copy(sa, isa, first, a, b, last, depth) == CopyBoth(sa, isa, first, a, b, last, depth, FALSE)
PartialCopy(sa, isa, first, a, b, last, depth) == CopyBoth(sa, isa, first, a, b, last, depth, TRUE)

(* ---- budget ---- *)
Check(bud, size) ==
  IF size <= bud.remain THEN <<TRUE, [bud EXCEPT !.remain = @ - size]>>
  ELSE IF bud.chance = 0 THEN <<FALSE, [bud EXCEPT !.count = @ + size]>>
  ELSE <<TRUE, [bud EXCEPT !.remain = @ + bud.incval - size, !.chance = @ - 1]>>

(* ---- trIntroSort ---- *)
(* st: [sa, isa, depth, first, last, limit, trlink, stk, bud]; stack entries <<a, b, c, d, e>> *)
RECURSIVE SetRange(_, _, _, _, _)
SetRange(g, f, lo, hi, v) == IF lo >= hi THEN g ELSE SetRange([g EXCEPT ![f[lo]] = v], f, lo + 1, hi, v)

Push(st, e) == [st EXCEPT !.stk = Append(@, e)]
MarkLink(st) == IF st.trlink >= 0 THEN [st EXCEPT !.stk[st.trlink + 1] = <<@[1], @[2], @[3], -1, @[5]>>] ELSE st

RECURSIVE Intro(_, _, _)
PopOrRet(st, incr, thr) ==
  IF st.stk = <<>> THEN st
  ELSE LET e == st.stk[Len(st.stk)] IN
       Intro([st EXCEPT !.stk = SubSeq(@, 1, Len(@) - 1), !.depth = e[1], !.first = e[2], !.last = e[3],
                        !.limit = e[4], !.trlink = e[5]], incr, thr)

(* the common tail of case -1 and of the "no budget" branch: continue with the smaller side first *)
Sides(st, a, b, incr, thr, pushLimitL, pushLimitR, limL, limR) ==
  LET first == st.first
      last  == st.last
  IN IF (a - first) <= (last - b)
     THEN IF (a - first) > 1
          THEN Intro([Push(st, <<st.depth, b, last, pushLimitR, st.trlink>>) EXCEPT !.last = a, !.limit = limL], incr, thr)
          ELSE IF (last - b) > 1 THEN Intro([st EXCEPT !.first = b, !.limit = limR], incr, thr)
          ELSE PopOrRet(st, incr, thr)
     ELSE IF (last - b) > 1
          THEN Intro([Push(st, <<st.depth, first, a, pushLimitL, st.trlink>>) EXCEPT !.first = b, !.limit = limR], incr, thr)
          ELSE IF (a - first) > 1 THEN Intro([st EXCEPT !.last = a, !.limit = limL], incr, thr)
          ELSE PopOrRet(st, incr, thr)

Intro(st, incr, thr) ==
  LET first == st.first
      last  == st.last
      depth == st.depth
  IN
  CASE st.limit = -1 ->
      LET pr == Partition(st.sa, st.isa, depth - incr, first, first, last, last - 1)
          a  == pr.ra
          b  == pr.rb
          g1 == IF a < last THEN SetRange(st.isa, pr.sa, first, a, a - 1) ELSE st.isa
          g2 == IF b < last THEN SetRange(g1, pr.sa, a, b, b - 1) ELSE g1
          s0 == [st EXCEPT !.sa = pr.sa, !.isa = g2]
          s1 == IF b - a > 1
                THEN LET t1 == Push(Push(s0, <<0, a, b, 0, 0>>), <<depth - incr, first, last, -2, s0.trlink>>)
                     IN [t1 EXCEPT !.trlink = Len(t1.stk) - 2]
                ELSE s0
      IN Sides(s1, a, b, incr, thr, ILog2(a - first), ILog2(last - b), ILog2(a - first), ILog2(last - b))
    [] st.limit = -2 ->
      IF st.stk = <<>> THEN st
      ELSE LET e  == st.stk[Len(st.stk)]
               s0 == [st EXCEPT !.stk = SubSeq(@, 1, Len(@) - 1)]
               a  == e[2]
               b  == e[3]
               s1 == IF e[4] = 0 THEN s0 ELSE MarkLink(s0)
               r  == IF e[4] = 0 THEN Copy(s1.sa, s1.isa, first, a, b, last, depth)
                     ELSE PartialCopy(s1.sa, s1.isa, first, a, b, last, depth)
           IN PopOrRet([s1 EXCEPT !.sa = r[1], !.isa = r[2]], incr, thr)
    [] st.limit = -3 ->
      LET \* ranks of the entries that are already in their final place
          RECURSIVE fin(_, _)
          fin(g, a) == LET g1 == [g EXCEPT ![st.sa[a]] = a]
                           a1 == a + 1
                       IN IF a1 >= last \/ st.sa[a1] < 0 THEN <<g1, a1>> ELSE fin(g1, a1)
          r0 == IF 0 <= st.sa[first] THEN fin(st.isa, first) ELSE <<st.isa, first>>
          f0 == r0[2]
          s0 == [st EXCEPT !.isa = r0[1], !.first = f0]
      IN IF f0 < last
         THEN LET RECURSIVE unm(_, _)
                  unm(f, a) == LET f1 == [f EXCEPT ![a] = Neg(f[a])]
                                   a1 == a + 1
                               IN IF a1 \notin DOMAIN f1 \/ f1[a1] >= 0 THEN <<f1, a1>> ELSE unm(f1, a1)
                  r1 == unm(s0.sa, f0)
                  f1 == r1[1]
                  a0 == r1[2]
                  next == IF At(s0.isa, At(f1, a0)) # At(s0.isa, depth + At(f1, a0)) THEN ILog2(a0 - f0 + 1) ELSE -1
                  a  == a0 + 1
                  g1 == IF a < last THEN SetRange(s0.isa, f1, f0, a, a - 1) ELSE s0.isa
                  ck == Check(s0.bud, a - f0)
                  s1 == [s0 EXCEPT !.sa = f1, !.isa = g1, !.bud = ck[2]]
              IN IF ck[1]
                 THEN IF (a - f0) <= (last - a)
                      THEN Intro([Push(s1, <<depth, a, last, -3, s1.trlink>>) EXCEPT !.depth = depth + incr, !.last = a, !.limit = next], incr, thr)
                      ELSE IF (last - a) > 1
                           THEN Intro([Push(s1, <<depth + incr, f0, a, next, s1.trlink>>) EXCEPT !.first = a, !.limit = -3], incr, thr)
                           ELSE Intro([s1 EXCEPT !.depth = depth + incr, !.last = a, !.limit = next], incr, thr)
                 ELSE LET s2 == MarkLink(s1) IN
                      IF (last - a) > 1 THEN Intro([s2 EXCEPT !.first = a, !.limit = -3], incr, thr)
                      ELSE PopOrRet(s2, incr, thr)
         ELSE PopOrRet(s0, incr, thr)
    [] OTHER ->
      IF (last - first) <= thr
      THEN Intro([st EXCEPT !.sa = InsSort(st.sa, st.isa, depth, first, last), !.limit = -3], incr, thr)
      ELSE IF st.limit - 1 < 0
      THEN Intro([st EXCEPT !.sa = HeapSort(st.sa, st.isa, depth, first, last), !.limit = -3], incr, thr)
      ELSE
      LET limit == st.limit - 1
          pv == Pivot(st.sa, st.isa, depth, first, last)
          f0 == IF pv # first THEN Swap(st.sa, first, pv) ELSE st.sa
          v  == At(st.isa, depth + f0[first])
          pr == Partition(f0, st.isa, depth, first, first + 1, last, v)
          a  == pr.ra
          b  == pr.rb
      IN IF (last - first) # (b - a)
         THEN LET next == IF At(st.isa, pr.sa[a]) # v THEN ILog2(b - a) ELSE -1
                  g1 == SetRange(st.isa, pr.sa, first, a, a - 1)
                  g2 == IF b < last THEN SetRange(g1, pr.sa, a, b, b - 1) ELSE g1
                  ck == IF b - a > 1 THEN Check(st.bud, b - a) ELSE <<FALSE, st.bud>>
                  s0 == [st EXCEPT !.sa = pr.sa, !.isa = g2, !.bud = ck[2], !.limit = limit]
                  tl == s0.trlink
              IN IF b - a > 1 /\ ck[1]
                 THEN IF a - first <= last - b
                      THEN IF (last - b) <= (b - a)
                           THEN IF a - first > 1
                                THEN Intro([Push(Push(s0, <<depth + incr, a, b, next, tl>>), <<depth, b, last, limit, tl>>) EXCEPT !.last = a], incr, thr)
                                ELSE IF last - b > 1
                                THEN Intro([Push(s0, <<depth + incr, a, b, next, tl>>) EXCEPT !.first = b], incr, thr)
                                ELSE Intro([s0 EXCEPT !.depth = depth + incr, !.first = a, !.last = b, !.limit = next], incr, thr)
                           ELSE IF (a - first) <= (b - a)
                           THEN IF (a - first) > 1
                                THEN Intro([Push(Push(s0, <<depth, b, last, limit, tl>>), <<depth + incr, a, b, next, tl>>) EXCEPT !.last = a], incr, thr)
                                ELSE Intro([Push(s0, <<depth, b, last, limit, tl>>) EXCEPT !.depth = depth + incr, !.first = a, !.last = b, !.limit = next], incr, thr)
                           ELSE Intro([Push(Push(s0, <<depth, b, last, limit, tl>>), <<depth, first, a, limit, tl>>)
                                       EXCEPT !.depth = depth + incr, !.first = a, !.last = b, !.limit = next], incr, thr)
                      ELSE IF (a - first) <= (b - a)
                           THEN IF (last - b) > 1
                                THEN Intro([Push(Push(s0, <<depth + incr, a, b, next, tl>>), <<depth, first, a, limit, tl>>) EXCEPT !.first = b], incr, thr)
                                ELSE IF (a - first) > 1
                                THEN Intro([Push(s0, <<depth + incr, a, b, next, tl>>) EXCEPT !.last = a], incr, thr)
                                ELSE Intro([s0 EXCEPT !.depth = depth + incr, !.first = a, !.last = b, !.limit = next], incr, thr)
                           ELSE IF (last - b) <= (b - a)
                           THEN IF (last - b) > 1
                                THEN Intro([Push(Push(s0, <<depth, first, a, limit, tl>>), <<depth + incr, a, b, next, tl>>) EXCEPT !.first = b], incr, thr)
                                ELSE Intro([Push(s0, <<depth, first, a, limit, tl>>) EXCEPT !.depth = depth + incr, !.first = a, !.last = b, !.limit = next], incr, thr)
                           ELSE Intro([Push(Push(s0, <<depth, first, a, limit, tl>>), <<depth, b, last, limit, tl>>)
                                       EXCEPT !.depth = depth + incr, !.first = a, !.last = b, !.limit = next], incr, thr)
                 ELSE LET s1 == IF (b - a) > 1 THEN MarkLink(s0) ELSE s0 IN
                      Sides(s1, a, b, incr, thr, limit, limit, limit, limit)
         ELSE LET ck == Check(st.bud, last - first)
                  s0 == [st EXCEPT !.sa = pr.sa, !.bud = ck[2], !.limit = limit]
              IN IF ck[1] THEN Intro([s0 EXCEPT !.limit = ILog2(last - first), !.depth = depth + incr], incr, thr)
                 ELSE PopOrRet(MarkLink(s0), incr, thr)

IntroSort(sa, isa, depth, first, last, bud, thr) ==
  Intro([sa |-> sa, isa |-> isa, depth |-> depth, first |-> first, last |-> last, limit |-> ILog2(last - first),
         trlink |-> -1, stk |-> <<>>, bud |-> bud], depth, thr)

(* ---- trSort: returns [sa, isa, rounds] (rounds = isa at the start of every round) ---- *)
RECURSIVE Scan(_, _, _, _, _, _, _)
Scan(sa, isa, depth, bud, thr, f, acc) ==       \* acc: <<skip, unsorted>>
  LET n == Cardinality(DOMAIN sa)
      t == sa[f]
  IN IF t < 0
     THEN LET f1 == f - t IN
          IF f1 >= n THEN [sa |-> sa, isa |-> isa, bud |-> bud, f |-> f1, skip |-> acc[1] + t, unsorted |-> acc[2]]
          ELSE Scan(sa, isa, depth, bud, thr, f1, <<acc[1] + t, acc[2]>>)
     ELSE LET sa1 == IF acc[1] # 0 THEN [sa EXCEPT ![f + acc[1]] = acc[1]] ELSE sa
              b   == isa[t] + 1
          IN IF b - f > 1
             THEN LET r  == IntroSort(sa1, isa, depth, f, b, [bud EXCEPT !.count = 0], thr)
                      sk == IF r.bud.count # 0 THEN 0 ELSE f - b
                      un == IF r.bud.count # 0 THEN acc[2] + r.bud.count ELSE acc[2]
                  IN IF b >= n THEN [sa |-> r.sa, isa |-> r.isa, bud |-> r.bud, f |-> b, skip |-> sk, unsorted |-> un]
                     ELSE Scan(r.sa, r.isa, depth, r.bud, thr, b, <<sk, un>>)
             ELSE LET sk == IF b - f = 1 THEN -1 ELSE 0 IN
                  IF b >= n THEN [sa |-> sa1, isa |-> isa, bud |-> bud, f |-> b, skip |-> sk, unsorted |-> acc[2]]
                  ELSE Scan(sa1, isa, depth, bud, thr, b, <<sk, acc[2]>>)

RECURSIVE Rounds(_, _, _, _, _, _)
Rounds(sa, isa, depth, bud, thr, rounds) ==
  LET n == Cardinality(DOMAIN sa) IN
  IF ~(-sa[0] < n) THEN [sa |-> sa, isa |-> isa, rounds |-> rounds]
  ELSE LET r   == Scan(sa, isa, depth, bud, thr, 0, <<0, 0>>)
           sa1 == IF r.skip # 0 THEN [r.sa EXCEPT ![r.f + r.skip] = r.skip] ELSE r.sa
       IN IF r.unsorted = 0 THEN [sa |-> sa1, isa |-> r.isa, rounds |-> Append(rounds, isa)]
          ELSE Rounds(sa1, r.isa, 2 * depth, r.bud, thr, Append(rounds, isa))

TrSort(sa, isa, thr0) ==
  LET n   == Cardinality(DOMAIN sa)
      thr == IF thr0 = 0 THEN 8 ELSE thr0
  IN Rounds(sa, isa, 1, [chance |-> (ILog2(n) * 2) \div 3, remain |-> n, incval |-> n, count |-> 0], thr, <<>>)
=============================================================================
