SPECIFICATION Spec
CONSTANTS
  Ws = {0, 1, 2}
  Slack = {1, 2}
  Alpha = {0, 1}
  MaxHist = 5
  MaxWrite = 2
  MaxM = 3
  MaxO = 3
  MaxSeqs = 1
  MaxLit = 1
  Grow = FALSE
  EmitOps = FALSE
INVARIANT Inv
PROPERTY Refines
CONSTRAINT Bound
VIEW View
CHECK_DEADLOCK FALSE
