SPECIFICATION Spec
CONSTANTS
  MaxM = 7
  K = 3
  Thrs = {1, 2, 3, 8}
  EmitOps = TRUE
INVARIANT Inv Emit
CHECK_DEADLOCK FALSE
