SPECIFICATION Spec
CONSTANTS
  MaxM = 8
  K = 4
  Thrs = {1, 2, 3, 8}
  EmitOps = TRUE
INVARIANT Inv Emit
CHECK_DEADLOCK FALSE
