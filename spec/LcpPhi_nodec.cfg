SPECIFICATION Spec
CONSTANTS
  Alpha = {0, 1, 2}
  MaxN = 7
  Variant = "nodec"
INVARIANT Inv
CHECK_DEADLOCK FALSE
