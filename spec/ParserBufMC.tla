----------------------------- MODULE ParserBufMC -----------------------------
(***************************************************************************)
(* Implementation-shaped model of lz.ParserBuffer (parser_buffer.go) with  *)
(* an abstract parser on top (Parse consumes Min(BlockSize, unparsed)      *)
(* bytes and emits them as literals, or, with NoTrailingLiterals, behaves  *)
(* the same because no sequence was found).  TLC checks, for every         *)
(* interleaving of Write / ReadFrom (all reader chunkings, errors with and *)
(* without data) / Parse / Parse(nil) / Shrink / Reset / ReadAt / ByteAt   *)
(* on tiny geometries, that the buffer design refines the ParserSM         *)
(* envelope (C15, C03, C14 accounting) and generates the call histories    *)
(* that are replayed into all seven real parsers.                          *)
(*                                                                         *)
(* Impl state: data (retained bytes), w (index of the parse position in    *)
(* data), off (absolute offset of data[0]).                                *)
(***************************************************************************)
EXTENDS ParserSM, Json

CONSTANTS Bs,       \* buffer sizes
          Alpha, MaxInp, MaxWrite, Blks, EmitOps

VARIABLES b,    \* [data, w, off, B, S, Blk]
          st,   \* envelope state
          ev, ops

vars == <<b, st, ev, ops>>
View == <<b, st>>

RECURSIVE SeqsUpTo(_, _)
SeqsUpTo(S, n) == IF n = 0 THEN {<<>>} ELSE SeqsUpTo(S, n - 1) \cup [1..n -> S]
Bytes(n) == SeqsUpTo(Alpha, n)

Cfg(B, S, Blk) == [kind |-> "HP", B |-> B, S |-> S, Wnd |-> 8, Blk |-> Blk, il |-> 3, mm |-> 3, xm |-> 3]

Init ==
  /\ \E B \in Bs, S \in 0..3, Blk \in Blks :
       /\ S <= B
       /\ S > 0 \/ B = 1          \* ShrinkSize 0 means "default" unless BufferSize is 1
       /\ b = [data |-> <<>>, w |-> 0, off |-> 0, B |-> B, S |-> S, Blk |-> Blk]
       /\ st = PInit(Cfg(B, S, Blk))
       /\ ops = <<[op |-> "begin", kind |-> "ANY", BufferSize |-> B, ShrinkSize |-> S, BlockSize |-> Blk,
                   WindowSize |-> 8]>>
  /\ ev = [op |-> "begin"]

(* ---- transcription of parser_buffer.go ---- *)
IWrite(p) ==
  LET avail == b.B - Len(b.data)
      n == Min(Len(p), avail)
  IN [b |-> [b EXCEPT !.data = @ \o SubSeq(p, 1, n)],
      ev |-> [op |-> "write", p |-> p, n |-> n, err |-> IF avail < Len(p) THEN "full" ELSE ""]]

(* ReadFrom: reader described by src and per-call <<max, err>>; returns calls log *)
RECURSIVE IRead(_, _, _, _, _)
IRead(data, src, calls, i, log) ==
  IF Len(data) >= b.B THEN [data |-> data, log |-> log, err |-> "full"]
  ELSE LET lenp == b.B - Len(data)     \* the slice offered never exceeds BufferSize
           mx   == IF i <= Len(calls) THEN calls[i][1] ELSE lenp
           ec0  == IF i <= Len(calls) THEN calls[i][2] ELSE (IF src = <<>> THEN "eof" ELSE "")
           k0   == Min(Min(Len(src), mx), lenp)
           \* the scripted reader never returns (0, nil)
           k    == IF k0 = 0 /\ ec0 = "" /\ src # <<>> THEN 1 ELSE k0
           ec   == IF k = 0 /\ ec0 = "" THEN "eof" ELSE ec0
           got  == SubSeq(src, 1, k)
           log2 == Append(log, <<lenp, k, ec, got>>)
       IN IF ec # "" THEN [data |-> data \o got, log |-> log2, err |-> ec]
          ELSE IRead(data \o got, SubSeq(src, k + 1, Len(src)), calls, i + 1, log2)

IReadFrom(src, calls) ==
  LET r == IRead(b.data, src, calls, 1, <<>>)
  IN [b |-> [b EXCEPT !.data = r.data],
      ev |-> [op |-> "readfrom", calls |-> r.log, n |-> Len(r.data) - Len(b.data), err |-> r.err]]

IParse(flags) ==
  LET n == Min(Len(b.data) - b.w, b.Blk) IN
  IF n = 0 THEN [b |-> b, ev |-> [op |-> "parse", flags |-> flags, n |-> 0, err |-> "empty", seqs |-> <<>>, lits |-> <<>>]]
  ELSE [b |-> [b EXCEPT !.w = @ + n],
        ev |-> [op |-> "parse", flags |-> flags, n |-> n, err |-> "", seqs |-> <<>>,
                lits |-> SubSeq(b.data, b.w + 1, b.w + n)]]

IParseNil ==
  LET n == Min(Len(b.data) - b.w, b.Blk) IN
  [b |-> [b EXCEPT !.w = @ + n], ev |-> [op |-> "parsenil", n |-> n, err |-> IF n = 0 THEN "empty" ELSE ""]]

IShrink ==
  LET delta == b.w - b.S IN
  IF delta <= 0 THEN [b |-> b, ev |-> [op |-> "shrink", delta |-> 0]]
  ELSE [b |-> [b EXCEPT !.data = SubSeq(@, delta + 1, Len(@)), !.w = b.S, !.off = @ + delta],
        ev |-> [op |-> "shrink", delta |-> delta]]

IReset(data) ==
  IF Len(data) > b.B THEN [b |-> b, ev |-> [op |-> "reset", data |-> data, cap |-> 0, err |-> "oversize"]]
  ELSE [b |-> [b EXCEPT !.data = data, !.w = 0, !.off = 0],
        ev |-> [op |-> "reset", data |-> data, cap |-> 0, err |-> ""]]

IReadAt(off, lenp) ==
  LET i == off - b.off IN
  IF ~(0 <= i /\ i < Len(b.data))
  THEN [b |-> b, ev |-> [op |-> "readat", off |-> off, lenp |-> lenp, n |-> 0, err |-> "outofbuffer", bytes |-> <<>>]]
  ELSE LET n == Min(lenp, Len(b.data) - i) IN
       [b |-> b, ev |-> [op |-> "readat", off |-> off, lenp |-> lenp, n |-> n,
                         err |-> IF Len(b.data) - i < lenp THEN "endofbuffer" ELSE "",
                         bytes |-> SubSeq(b.data, i + 1, i + n)]]

IByteAt(off) ==
  LET i == off - b.off IN
  IF 0 <= i /\ i < Len(b.data) THEN [b |-> b, ev |-> [op |-> "byteat", off |-> off, c |-> b.data[i + 1], err |-> ""]]
  ELSE IF i = Len(b.data) THEN [b |-> b, ev |-> [op |-> "byteat", off |-> off, c |-> 0, err |-> "endofbuffer"]]
  ELSE [b |-> b, ev |-> [op |-> "byteat", off |-> off, c |-> 0, err |-> "outofbuffer"]]

Apply(r, call) ==
  /\ b' = r.b
  /\ ev' = r.ev
  /\ st' = PEff(st, r.ev)
  /\ ops' = IF EmitOps THEN Append(ops, call) ELSE ops

ReaderCalls == SeqsUpTo({<<1, "">>, <<2, "">>, <<1, "eof">>, <<2, "reader">>, <<0, "reader">>}, 2)

DoWrite    == \E p \in Bytes(MaxWrite) : Len(st.inp) + Len(p) <= MaxInp /\ Apply(IWrite(p), [op |-> "write", p |-> p])
DoReadFrom == \E src \in Bytes(MaxWrite), calls \in ReaderCalls :
                 /\ Len(st.inp) + Len(src) <= MaxInp
                 /\ Apply(IReadFrom(src, calls), [op |-> "readfrom", src |-> src, calls |-> calls])
DoParse    == \E fl \in {0, 1} : Apply(IParse(fl), [op |-> "parse", flags |-> fl])
DoParseNil == Apply(IParseNil, [op |-> "parsenil"])
DoShrink   == Apply(IShrink, [op |-> "shrink"])
DoReset    == \E d \in Bytes(2) \cup {<<0, 1, 0, 1, 0>>} : Apply(IReset(d), [op |-> "reset", data |-> d, cap |-> 0])
DoReadAt   == \E d \in -1..1, lenp \in 0..2, rel \in {"off", "end"} :
                 LET off == (IF rel = "off" THEN b.off ELSE b.off + Len(b.data)) + d
                 IN Apply(IReadAt(off, lenp), [op |-> "readat", off |-> off, lenp |-> lenp])
DoByteAt   == \E d \in -1..1, rel \in {"off", "end"} :
                 LET off == (IF rel = "off" THEN b.off ELSE b.off + Len(b.data)) + d
                 IN Apply(IByteAt(off), [op |-> "byteat", off |-> off])

Next == DoWrite \/ DoReadFrom \/ DoParse \/ DoParseNil \/ DoShrink \/ DoReset \/ DoReadAt \/ DoByteAt
Spec == Init /\ [][Next]_vars

(* ---- properties ---- *)
Refines == [][PWhy(st, ev', {}) = {}]_vars
AbsInv ==
  /\ b.data = SubSeq(st.inp, st.off0 + 1, Len(st.inp))
  /\ b.off = st.off0
  /\ b.off + b.w = st.w
Bounded  == Len(b.data) <= b.B                                              \* C15
KeepsHistory == st.w - st.off0 >= 0 /\ (ev.op = "shrink" => st.w - st.off0 = Min(b.S, st.w - (st.off0 - ev.delta)))
Inv == AbsInv /\ Bounded /\ PStateOk(st) /\ KeepsHistory

Emit == EmitOps => PrintT(<<"VERIF_OPS", ToJson(ops')>>)

(* ---- random walks: draw the kind of call first ---- *)
WalkNext ==
  \E i \in {RandomElement({j \in 1..10 : Len(ops) >= 0})} :
    CASE i \in {1, 2} -> (\E p \in {RandomElement(Bytes(MaxWrite))} :
                             Len(st.inp) + Len(p) <= MaxInp /\ Apply(IWrite(p), [op |-> "write", p |-> p]))
      [] i \in {3, 4} -> (\E src \in {RandomElement(Bytes(MaxWrite))} : \E calls \in {RandomElement(ReaderCalls)} :
                             /\ Len(st.inp) + Len(src) <= MaxInp
                             /\ Apply(IReadFrom(src, calls), [op |-> "readfrom", src |-> src, calls |-> calls]))
      [] i \in {5, 6} -> DoParse
      [] i = 7 -> DoParseNil
      [] i = 8 -> DoShrink
      [] i = 9 -> (\E d \in {RandomElement(Bytes(2) \cup {<<0, 1, 0, 1, 0>>})} :
                             Apply(IReset(d), [op |-> "reset", data |-> d, cap |-> 0]))
      [] OTHER -> DoReadAt \/ DoByteAt
WalkSpec == Init /\ [][WalkNext]_vars
=============================================================================
