----------------------------- MODULE DivSufSort -----------------------------
(***************************************************************************)
(* Implementation-shaped model of the DivSufSort driver (suffix/k1.go,     *)
(* config.sort): the stages around the two sorting engines.                *)
(*                                                                         *)
(*   1 classify   right-to-left scan: A / B / B* types, bucket counts,      *)
(*                the B* positions in text order                           *)
(*   2 offsets    bucket starts (A), bucket ends (B-star) - the three tables   *)
(*                share ONE sigma x sigma array as in the code: B(c0,c1)   *)
(*                at c0*sigma+c1, Bstar(c0,c1) at c1*sigma+c0, and later the  *)
(*                A-bucket ends in row sigma-1                             *)
(*   3 sort B*    ssort + trSort: abstract for Variant "code" - the stage  *)
(*                contract is "the B* suffixes are in suffix order"        *)
(*                (Variant "swap" breaks the contract and TLC shows the    *)
(*                result is wrong); Variant "impl" runs the transcribed    *)
(*                engines SsortImpl.tla and TrSortImpl.tla instead, which  *)
(*                makes the module a complete implementation-shaped model  *)
(*                of suffix.Sort                                           *)
(*   4 flags      B* positions written in sorted order, negated when the   *)
(*                preceding suffix is of type A (or there is none)         *)
(*   5 copy       B* groups moved to the front of their (c0,c1) regions,   *)
(*                B pointers set to the region ends                        *)
(*   6 induce B   right-to-left scan per first byte c1, sign flips         *)
(*   7 induce A   left-to-right scan, sign flips                           *)
(*                                                                         *)
(* Stages 1, 2, 5, 6, 7 are transcribed loop by loop, on an array with     *)
(* unwritten slots (G): the model checks for every text of the scope that  *)
(* no scan reads an unwritten slot, no write lands on a slot that is still *)
(* needed, the aliasing of the three tables is harmless, each stage        *)
(* establishes its contract (the Contract_ invariants), and the result is the suffix     *)
(* array by definition.  The texts also go through the real suffix.Sort,   *)
(* and with the verif hook the arrays the code holds after stages 4/5, 6   *)
(* and 7 are compared with the model's (Suffix_Trace, informational DRIFT).*)
(***************************************************************************)
EXTENDS Integers, Sequences, FiniteSets, SequencesExt, TLC

G == 100000                      \* an unwritten slot

Ch(t, i) == t[i + 1]             \* 0-based byte

RECURSIVE IsA(_, _)
IsA(t, i) ==
  IF i = Len(t) - 1 THEN TRUE
  ELSE IF Ch(t, i) > Ch(t, i + 1) THEN TRUE
  ELSE IF Ch(t, i) < Ch(t, i + 1) THEN FALSE
  ELSE IsA(t, i + 1)
IsB(t, i) == ~IsA(t, i)
IsBStar(t, i) == IsB(t, i) /\ IsA(t, i + 1)

SufLess(t, a, b) ==              \* suffix a < suffix b
  LET x == SubSeq(t, a + 1, Len(t))
      y == SubSeq(t, b + 1, Len(t))
      RECURSIVE less(_)
      less(k) == IF k > Len(x) THEN k <= Len(y)
                 ELSE IF k > Len(y) THEN FALSE
                 ELSE IF x[k] # y[k] THEN x[k] < y[k]
                 ELSE less(k + 1)
  IN a # b /\ less(1)

SAof(t) == SortSeq([i \in 1..Len(t) |-> i - 1], LAMBDA a, b : SufLess(t, a, b))

(* ---- stage 1: classify (scan loop of config.sort) ---- *)
(* acc: [a: char -> count, arr: shared table, pos: B* positions ascending] *)
BIx(sg, c0, c1) == c0 * sg + c1
SIx(sg, c0, c1) == c1 * sg + c0

RECURSIVE ScanA(_, _, _, _, _), ScanB(_, _, _, _, _)
ScanA(t, sg, i, c0, acc) ==          \* position i (byte c0) is of type A
  LET acc1 == [acc EXCEPT !.a[c0] = @ + 1]
      i1 == i - 1
  IN IF i1 < 0 THEN acc1
     ELSE LET d0 == Ch(t, i1) IN
          IF d0 < c0
          THEN ScanB(t, sg, i1, d0, [acc1 EXCEPT !.arr[SIx(sg, d0, c0)] = @ + 1, !.pos = <<i1>> \o @])
          ELSE ScanA(t, sg, i1, d0, acc1)
ScanB(t, sg, i, c0, acc) ==          \* position i (byte c0) is of type B or B*
  LET i1 == i - 1 IN
  IF i1 < 0 THEN acc
  ELSE LET d0 == Ch(t, i1) IN
       IF d0 > c0 THEN ScanA(t, sg, i1, d0, acc)
       ELSE ScanB(t, sg, i1, d0, [acc EXCEPT !.arr[BIx(sg, d0, c0)] = @ + 1])

Classify(t, sg) ==
  ScanA(t, sg, Len(t) - 1, Ch(t, Len(t) - 1),
        [a |-> [c \in 0..sg - 1 |-> 0], arr |-> [x \in 0..sg * sg - 1 |-> 0], pos |-> <<>>])

(* ---- stage 2: offsets ---- *)
RECURSIVE OffC1(_, _, _, _, _), OffC0(_, _, _, _, _)
OffC1(sg, c0, c1, ij, arr) ==        \* ij = <<i, j>>
  IF c1 >= sg THEN <<ij, arr>>
  ELSE LET j1 == ij[2] + arr[SIx(sg, c0, c1)] IN
       OffC1(sg, c0, c1 + 1, <<ij[1] + arr[BIx(sg, c0, c1)], j1>>, [arr EXCEPT ![SIx(sg, c0, c1)] = j1])
OffC0(sg, c0, ij, a, arr) ==
  IF c0 >= sg THEN [a |-> a, arr |-> arr]
  ELSE LET tt == ij[1] + a[c0]
           a1 == [a EXCEPT ![c0] = ij[1] + ij[2]]
           r  == OffC1(sg, c0, c0 + 1, <<tt + arr[BIx(sg, c0, c0)], ij[2]>>, arr)
       IN OffC0(sg, c0 + 1, r[1], a1, r[2])
Offsets(sg, cl) == OffC0(sg, 0, <<0, 0>>, cl.a, cl.arr)

(* B* ranks land in sa[0..m): every B* takes the next lower slot of its   *)
(* bucket - afterwards the B* pointer of a bucket is the bucket's start   *)
RECURSIVE DecAll(_, _, _, _, _)
DecAll(t, sg, pos, k, arr) ==
  IF k > Len(pos) THEN arr
  ELSE DecAll(t, sg, pos, k + 1, [arr EXCEPT ![SIx(sg, Ch(t, pos[k]), Ch(t, pos[k] + 1))] = @ - 1])

(* ---- stage 3, implementation-shaped: the two sorting engines (SsortImpl.tla, ---- *)
(* ---- TrSortImpl.tla) on the arrays the driver builds for them                ---- *)
SSI == INSTANCE SsortImpl
TRS == INSTANCE TrSortImpl
ImplThresholds == <<1, 1>>        \* sizeThreshold, trSizeThreshold used by Variant "impl" (SortCfg hook values)

ImplSortedBStar(t, pos) ==
  LET mm    == Len(pos)
      pf    == [k \in 0..mm - 1 |-> pos[k + 1]]
      keyOf(k) == <<t[pos[k + 1] + 1], t[pos[k + 1] + 2]>>
      keys  == { keyOf(k) : k \in 0..mm - 1 }
      KLess(c, c2) == c[1] < c2[1] \/ (c[1] = c2[1] /\ c[2] < c2[2])
      ends0 == [c \in keys |-> Cardinality({ k \in 0..mm - 1 : keyOf(k) = c \/ KLess(keyOf(k), c) })]
      pl    == SSI!Place([i \in 0..mm - 1 |-> 0], t, pos, 0, ends0, 0)
      RECURSIVE desc(_, _)
      desc(S, acc) == IF S = {} THEN acc
                      ELSE LET c == CHOOSE c \in S : \A c2 \in S : c2 = c \/ KLess(c2, c)
                           IN desc(S \ {c}, Append(acc, c))
      a1    == SSI!SortBuckets(pl[1], t, pf, pl[2], desc(keys, <<>>), mm, pl[3], ImplThresholds[1])
      rf    == SSI!RankFill(a1)
      tr    == TRS!TrSort(rf[1], rf[2], ImplThresholds[2])
  IN \* isa[l] = rank of the l-th B* suffix: the sorted list of positions
     [r \in 1..mm |-> pos[(CHOOSE l \in 0..mm - 1 : tr.isa[l] = r - 1) + 1]]

(* ---- stage 3 (abstract) + 4: sorted, flagged B* positions in sa[0..m) ---- *)
SortedBStar(t, pos, variant) ==
  IF variant = "impl" THEN (IF pos = <<>> THEN <<>> ELSE ImplSortedBStar(t, pos))
  ELSE
  LET s == SortSeq(pos, LAMBDA a, b : SufLess(t, a, b)) IN
  IF variant = "swap" /\ Len(s) >= 2 THEN [s EXCEPT ![1] = s[2], ![2] = s[1]] ELSE s

Flag(t, k) == IF k = 0 \/ IsA(t, k - 1) THEN -k ELSE k

(* ---- stage 5: copy the B* groups, set B pointers and A ends ---- *)
(* st: [sa, arr, k, ok, live]; live = slots that hold a moved B* entry *)
RECURSIVE CopyC1(_, _, _, _, _, _), CopyC0(_, _, _, _, _)
CopyC1(sg, c0, c1, i, st, a) ==
  IF c1 <= c0 THEN <<i, st>>
  ELSE LET i1 == st.arr[BIx(sg, c0, c1)]
           arr1 == [st.arr EXCEPT ![BIx(sg, c0, c1)] = i]
           j == arr1[SIx(sg, c0, c1)]
           i2 == i - i1 - (st.k - j)
           \* copy(sa[i2:], sa[j:k]) with memmove semantics
           sa1 == [x \in DOMAIN st.sa |-> IF x >= i2 /\ x < i2 + (st.k - j) THEN st.sa[j + (x - i2)] ELSE st.sa[x]]
           \* the destination must not reach into the groups that still wait in sa[0..j)
           ok1 == st.ok /\ (st.k - j > 0 => i2 >= j)
           live1 == st.live \cup { x \in DOMAIN st.sa : x >= i2 /\ x < i2 + (st.k - j) }
       IN CopyC1(sg, c0, c1 - 1, i2, [sa |-> sa1, arr |-> arr1, k |-> j, ok |-> ok1, live |-> live1], a)
CopyC0(sg, c0, st, a, n) ==
  IF c0 < 0 THEN st
  ELSE LET r == CopyC1(sg, c0, sg - 1, a[c0 + 1], st, a)
           i == r[1]
           s1 == r[2]
           \* aBucketEnds[c0] aliases the B* cell (c0, sigma-1)
           arr1 == [s1.arr EXCEPT ![(sg - 1) * sg + c0] = i - s1.arr[BIx(sg, c0, c0)]]
           arr2 == [arr1 EXCEPT ![BIx(sg, c0, c0)] = i]
       IN CopyC0(sg, c0 - 1, [s1 EXCEPT !.arr = arr2], a, n)
CopyStage(sg, sa, arr, m, a, n) ==
  CopyC0(sg, sg - 2, [sa |-> sa, arr |-> [arr EXCEPT ![BIx(sg, sg - 1, sg - 1)] = n], k |-> m, ok |-> TRUE, live |-> {}], a, n)

AEnd(sg, arr, c0) == arr[(sg - 1) * sg + c0]

(* ---- stage 6: induce B ---- *)
RECURSIVE IndBScan(_, _, _, _, _, _), IndBC1(_, _, _, _, _)
IndBScan(t, sg, c1, i, k, st) ==
  IF i < k THEN st
  ELSE LET j == st.sa[i] IN
       IF j = G THEN [st EXCEPT !.ok = FALSE]                     \* read of an unwritten slot
       ELSE LET sa1 == [st.sa EXCEPT ![i] = -j] IN
            IF j <= 0 THEN IndBScan(t, sg, c1, i - 1, k, [st EXCEPT !.sa = sa1])
            ELSE LET p  == j - 1
                     c0 == Ch(t, p)
                     v  == IF p > 0 /\ Ch(t, p - 1) > c0 THEN -p ELSE p
                     ix == BIx(sg, c0, c1)
                     d  == st.arr[ix] - 1
                     okw == c0 <= c1 /\ d >= 0 /\ d < Len(t) /\ sa1[d] = G /\ d < i    \* free slot, left of the scan
                 IN IF ~okw THEN [st EXCEPT !.ok = FALSE]
                    ELSE IndBScan(t, sg, c1, i - 1, k,
                                  [st EXCEPT !.sa = [sa1 EXCEPT ![d] = v], !.arr = [st.arr EXCEPT ![ix] = d]])
IndBC1(t, sg, c1, a, st) ==
  IF c1 < 0 \/ ~st.ok THEN st
  ELSE IndBC1(t, sg, c1 - 1, a, IndBScan(t, sg, c1, a[c1 + 1] - 1, AEnd(sg, st.arr, c1), st))
InduceB(t, sg, a, st) == IndBC1(t, sg, sg - 2, a, st)

(* ---- stage 7: induce A ---- *)
RECURSIVE IndAScan(_, _, _)
IndAScan(t, i, st) ==               \* st: [sa, a, ok]
  IF i >= Len(t) \/ ~st.ok THEN st
  ELSE LET j == st.sa[i] IN
       IF j = G THEN [st EXCEPT !.ok = FALSE]
       ELSE IF j <= 0 THEN IndAScan(t, i + 1, [st EXCEPT !.sa[i] = -j])
       ELSE LET p  == j - 1
                c0 == Ch(t, p)
                v  == IF p > 0 /\ Ch(t, p - 1) < c0 THEN -p ELSE p
                d  == st.a[c0]
                okw == d < Len(t) /\ st.sa[d] = G /\ d > i
            IN IF ~okw THEN [st EXCEPT !.ok = FALSE]
               ELSE IndAScan(t, i + 1, [st EXCEPT !.sa[d] = v, !.a[c0] = d + 1])
InduceA(t, a, sa) ==
  LET n  == Len(t)
      c0 == Ch(t, n - 2)
      c1 == Ch(t, n - 1)
      v  == IF c0 < c1 THEN -(n - 1) ELSE n - 1
      d  == a[c1]
  IN IF sa[d] # G THEN [sa |-> sa, a |-> a, ok |-> FALSE]
     ELSE IndAScan(t, 0, [sa |-> [sa EXCEPT ![d] = v], a |-> [a EXCEPT ![c1] = d + 1], ok |-> TRUE])

(* ---- the whole pipeline as a function of the text (len >= 3) ---- *)
Run(t, sg, variant) ==
  LET n   == Len(t)
      cl  == Classify(t, sg)
      m   == Len(cl.pos)
      off == Offsets(sg, cl)
      arrS == DecAll(t, sg, cl.pos, 1, off.arr)
      sb  == SortedBStar(t, cl.pos, variant)
      sa4 == [x \in 0..n - 1 |-> IF x < m THEN Flag(t, sb[x + 1]) ELSE G]
      cp  == IF m > 0 THEN CopyStage(sg, sa4, arrS, m, off.a, n)
             ELSE [sa |-> sa4, arr |-> arrS, k |-> 0, ok |-> TRUE, live |-> {}]
      \* what the copy left behind in sa[0..m) is stale: the model treats it as
      \* unwritten and checks that no later scan reads it
      sa5 == [x \in 0..n - 1 |-> IF x \in cp.live THEN cp.sa[x] ELSE G]
      ib  == IF m > 0 THEN InduceB(t, sg, off.a, [sa |-> sa5, arr |-> cp.arr, ok |-> cp.ok]) ELSE [sa |-> sa5, arr |-> cp.arr, ok |-> TRUE]
      ia  == InduceA(t, off.a, ib.sa)
  IN [cl |-> cl, m |-> m, a |-> off.a, sb |-> sb, sa4 |-> sa4, cp |-> cp, sa5 |-> sa5, ib |-> ib, ia |-> ia]
=============================================================================
