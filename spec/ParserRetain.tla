---------------------------- MODULE ParserRetain ----------------------------
(***************************************************************************)
(* Integer abstraction of lz.ParserBuffer (lengths only) for an UNBOUNDED  *)
(* argument about the arithmetic clauses of C15 / C03: for every           *)
(* BufferSize, ShrinkSize <= BufferSize, BlockSize, every write size and   *)
(* every parse length                                                      *)
(*   Write takes min(len(p), BufferSize - len) bytes and reports           *)
(*        ErrFullBuffer exactly when that is less than len(p);             *)
(*   Parse advances W by 1..min(BlockSize, len - W) (or reports an empty   *)
(*        buffer exactly when W = len);                                    *)
(*   Shrink discards delta = max(W - ShrinkSize, 0) bytes from the front:  *)
(*        it keeps min(ShrinkSize, W) bytes of history, never touches      *)
(*        unparsed bytes, and Off + len always equals the bytes accepted   *)
(*        since the last Reset.                                            *)
(* IndInv is inductive; Apalache checks  IndInit => IndInv  (length 0) and *)
(* IndInv /\ Next => IndInv'  (length 1) for all integers:                 *)
(*   apalache-mc check --init=IndInit --inv=IndInv --length=1              *)
(* The byte-level design (ParserBufMC) is checked by TLC for tiny sizes;   *)
(* this module removes the size bound for the arithmetic, in particular    *)
(* ShrinkSize = BufferSize (no progress: the wrapper's termination depends *)
(* on ShrinkSize < BufferSize, which Verify demands) and WindowSize is     *)
(* deliberately absent: the buffer arithmetic does not depend on it.       *)
(***************************************************************************)
EXTENDS Integers

CONSTANTS
  \* @type: Int;
  B,        \* BufferSize
  \* @type: Int;
  S,        \* ShrinkSize
  \* @type: Int;
  Blk       \* BlockSize

VARIABLES
  \* @type: Int;
  len,      \* len(Data)
  \* @type: Int;
  w,        \* W, parse position inside Data
  \* @type: Int;
  off,      \* Off, bytes discarded since Reset
  \* @type: Int;
  fed,      \* ghost: bytes accepted since Reset
  \* @type: Int;
  hist      \* ghost: bytes of parsed history kept (min over the Shrinks of what must be there)

Min(a, b) == IF a < b THEN a ELSE b
Max(a, b) == IF a > b THEN a ELSE b

ConstInit == B \in Int /\ S \in Int /\ Blk \in Int /\ B >= 1 /\ S >= 0 /\ S < B /\ Blk >= 1

Init == len = 0 /\ w = 0 /\ off = 0 /\ fed = 0 /\ hist = 0

Write(g) ==
  /\ g >= 0
  /\ LET n == Min(g, B - len) IN
     /\ len' = len + n /\ fed' = fed + n
  /\ UNCHANGED <<w, off, hist>>

Parse(n) ==
  /\ len - w > 0                         \* otherwise ErrEmptyBuffer, nothing changes
  /\ n >= 1 /\ n <= Min(Blk, len - w)
  /\ w' = w + n /\ hist' = w + n
  /\ UNCHANGED <<len, off, fed>>

Shrink ==
  LET delta == Max(w - S, 0) IN
  /\ len' = len - delta /\ w' = w - delta /\ off' = off + delta
  /\ hist' = Min(S, w)
  /\ fed' = fed

Reset(g) ==
  /\ g >= 0 /\ g <= B                    \* an oversize slice is refused, nothing changes
  /\ len' = g /\ w' = 0 /\ off' = 0 /\ fed' = g /\ hist' = 0

Next == (\E g \in Int : Write(g)) \/ (\E n \in Int : Parse(n)) \/ Shrink \/ (\E g \in Int : Reset(g))

IndInv ==
  /\ B >= 1 /\ S >= 0 /\ S < B /\ Blk >= 1
  /\ 0 <= w /\ w <= len /\ len <= B
  /\ off >= 0
  /\ off + len = fed                     \* nothing accepted is lost or invented (C15)
  /\ hist = w                            \* the parsed history in the buffer is what Shrink promises:
                                         \* after Shrink w = min(S, w_before), between Shrinks it grows with Parse
  \* progress of the fill / drain / Shrink cycle: a full, completely parsed
  \* buffer has room again after Shrink because S < B
  /\ (len = B /\ w = len) => Max(w - S, 0) > 0

IndInit == len \in Int /\ w \in Int /\ off \in Int /\ fed \in Int /\ hist \in Int /\ IndInv
=============================================================================
