SPECIFICATION TraceSpec
INVARIANT TraceInv
POSTCONDITION Post
CHECK_DEADLOCK FALSE
