SPECIFICATION Spec
CONSTANTS
  N = 6
  KMax = 3
  Variant = "code"
  EmitOps = FALSE
INVARIANT Inv
CHECK_DEADLOCK FALSE
