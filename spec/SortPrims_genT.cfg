SPECIFICATION Spec
CONSTANTS
  N = 7
  KMax = 3
  Variant = "code"
  EmitOps = TRUE
INVARIANT Inv Emit
CHECK_DEADLOCK FALSE
