-------------------------------- MODULE OSAP --------------------------------
(***************************************************************************)
(* Implementation-shaped model of the optimizing suffix array parser       *)
(* (osap.go: computeEdges, shortestPath, Parse).                           *)
(*                                                                         *)
(* computeEdges: for the text from winStart = max(0, W - WindowSize) to    *)
(* the end of the buffered data, suffix.Segments reports every group of    *)
(* suffixes sharing m bytes (minLen = MinMatchLen, maxLen = min(longest    *)
(* LCP, MaxMatchLen)), children before parents; for every member i of a    *)
(* group, at or behind the parse position, with predecessor p in the group *)
(* (the nearest earlier occurrence) the edge (m, o = i - p) is appended to *)
(* the list of i unless o exceeds the window or the list already ends with *)
(* an offset <= o.  The model takes the groups from their definition       *)
(* (SuffixDefs!ExpectedGroups on the definitional suffix array) and sorts  *)
(* the groups containing i by decreasing m - which is the order in which   *)
(* a children-first scan delivers them.                                    *)
(*                                                                         *)
(* shortestPath: forward relaxation over positions 0..n of the block with  *)
(* literal steps (cost 9) and, per edge (mx, o), every length              *)
(* MinMatchLen..min(mx, n - i); then backtracking.  Transcribed statement  *)
(* by statement.  Variant "norelax" is the defect that was repaired        *)
(* (literal edges were never relaxed from positions reached by a match).   *)
(*                                                                         *)
(* The data arrives in two writes (t = t1 \o t2), so that edges are also   *)
(* computed with a parse position > 0 and a window start > 0.              *)
(*                                                                         *)
(* Property: every emitted block satisfies the ParserSM envelope including *)
(* C11.cost_optimal (BlockCost = OptCost, the definitional optimum over    *)
(* all parses), C02 and C01.                                               *)
(***************************************************************************)
EXTENDS ParserSM, SuffixDefs, SequencesExt, Json

CONSTANTS Alpha, MaxN, Blks, MinMs, MaxMs, Wnds, Variant, EmitOps, EmitEvery

VARIABLES t,       \* the whole text
          avail,   \* bytes written so far
          cf,      \* [Blk, mm, xm, Wnd]
          w,       \* parse position
          start,   \* position for which edges[1] stands (s.start)
          edges,   \* tuple: edges[k] = edge list of position start + k - 1, each <<m, o>>
          st, ev, ops

vars == <<t, avail, cf, w, start, edges, st, ev, ops>>
View == <<t, avail, cf, w, start, edges>>

RECURSIVE SeqsUpTo(_, _)
SeqsUpTo(S, n) == IF n = 0 THEN {<<>>} ELSE SeqsUpTo(S, n - 1) \cup [1..n -> S]

Cfg(c, n) == [kind |-> "OSAP", B |-> n, S |-> n \div 2, Wnd |-> c.Wnd, Blk |-> c.Blk, il |-> 0, mm |-> c.mm, xm |-> c.xm]

Init ==
  /\ t \in SeqsUpTo(Alpha, MaxN) /\ Len(t) >= 1
  /\ avail \in 1..Len(t)
  /\ cf \in [Blk : Blks, mm : MinMs, xm : MaxMs, Wnd : Wnds]
  /\ cf.mm <= cf.xm
  /\ w = 0 /\ start = 0 /\ edges = <<>>
  /\ st = [PInit(Cfg(cf, Len(t))) EXCEPT !.inp = SubSeq(t, 1, avail)]
  /\ ev = [op |-> "begin"]
  /\ ops = <<[op |-> "begin", kind |-> "OSAP", BufferSize |-> Len(t), ShrinkSize |-> 0, WindowSize |-> cf.Wnd,
              BlockSize |-> cf.Blk, MinMatchLen |-> cf.mm, MaxMatchLen |-> cf.xm],
             [op |-> "write", p |-> SubSeq(t, 1, avail)]>>

TrueSA(x) == SortSeq([i \in 1..Len(x) |-> i - 1], LAMBDA a, b : SuffixLess(x, a, b))
TrueLCP(x, p) == [i \in 1..Len(p) |-> IF i = 1 THEN 0 ELSE SLcp(x, p[i - 1], p[i])]

RECURSIVE MaxOf(_, _, _)
MaxOf(s, i, acc) == IF i > Len(s) THEN acc ELSE MaxOf(s, i + 1, IF s[i] > acc THEN s[i] ELSE acc)

(* ---- computeEdges ---- *)
EdgesFor(data, ws, from) ==
  \* data: buffered bytes, ws: window start, from: first position that gets edges (s.start)
  LET tw   == SubSeq(data, ws + 1, Len(data))
      sa   == TrueSA(tw)
      lcp  == TrueLCP(tw, sa)
      maxL == SMin(MaxOf(lcp, 1, 0), cf.xm)
      groups == IF Len(tw) = 0 \/ maxL < cf.mm THEN {} ELSE ExpectedGroups(sa, lcp, cf.mm, maxL)
      \* groups containing window position x, longest common prefix first
      chain(x) == SortSeq(SetToSeq({ g \in groups : x \in g[2] }), LAMBDA a, b : a[1] > b[1])
      pred(g, x) == LET lower == { y \in g[2] : y < x } IN
                    IF lower = {} THEN -1 ELSE CHOOSE y \in lower : \A z \in lower : z <= y
      RECURSIVE build(_, _, _, _)
      build(x, ch, k, acc) ==
        IF k > Len(ch) THEN acc
        ELSE LET p == pred(ch[k], x)
                 o == x - p
             IN IF p < 0 \/ o > cf.Wnd \/ (acc # <<>> /\ acc[Len(acc)][2] <= o)
                THEN build(x, ch, k + 1, acc)
                ELSE build(x, ch, k + 1, Append(acc, <<ch[k][1], o>>))
  IN [k \in 1..(Len(data) - from) |->
        LET x == from + k - 1 - ws IN build(x, chain(x), 1, <<>>)]

(* ---- shortestPath ---- *)
(* d: tuple indexed 1..n+1 (position i is index i+1) of <<m, o, c>> *)
RECURSIVE RelaxLens(_, _, _, _, _, _, _)
RelaxLens(d, i, m, mx, o, ci, n) ==
  IF m > mx THEN d
  ELSE LET c == ci + XZCost(m, o)
           j == i + m
       IN RelaxLens(IF c < d[j + 1][3] THEN [d EXCEPT ![j + 1] = <<m, o, c>>] ELSE d, i, m + 1, mx, o, ci, n)

RECURSIVE RelaxEdges(_, _, _, _, _, _)
RelaxEdges(d, i, q, k, ci, n) ==     \* edges of position i from the last to the first
  IF k < 1 THEN d
  ELSE LET mx == SMin(q[k][1], n - i) IN
       RelaxEdges(RelaxLens(d, i, cf.mm, mx, q[k][2], ci, n), i, q, k - 1, ci, n)

RECURSIVE Forward(_, _, _, _)
Forward(d, i, es, n) ==
  IF i >= n THEN d
  ELSE LET d1 == IF i > 0 /\ Variant # "norelax" /\ d[i][3] + 9 < d[i + 1][3]
                 THEN [d EXCEPT ![i + 1] = <<1, 0, d[i][3] + 9>>] ELSE d
           ci == d1[i + 1][3]
       IN Forward(RelaxEdges(d1, i, es[i + 1], Len(es[i + 1]), ci, n), i + 1, es, n)

ShortestPath(es, n) ==
  LET d0 == [i \in 1..n + 1 |-> IF i = 1 THEN <<0, 0, 0>> ELSE <<1, 0, 9 * (i - 1)>>]
      d1 == Forward(d0, 0, es, n)
      d2 == IF n > 0 /\ Variant # "norelax" /\ d1[n][3] + 9 < d1[n + 1][3]
            THEN [d1 EXCEPT ![n + 1] = <<1, 0, d1[n][3] + 9>>] ELSE d1
      RECURSIVE back(_, _)
      back(i, acc) == IF i = 0 THEN acc ELSE back(i - d2[i + 1][1], <<d2[i + 1]>> \o acc)
  IN back(n, <<>>)     \* steps in forward order: <<m, o, c>>, o = 0 for a literal

(* steps -> sequences and literals, as Parse does *)
RECURSIVE Emit(_, _, _, _, _, _)
Emit(steps, k, i, litIndex, seqs, lits) ==
  IF k > Len(steps) THEN [seqs |-> seqs, lits |-> lits, lit |-> litIndex, i |-> i]
  ELSE LET e == steps[k] IN
       IF e[2] = 0 THEN Emit(steps, k + 1, i + e[1], litIndex, seqs, lits)
       ELSE Emit(steps, k + 1, i + e[1], i + e[1],
                 Append(seqs, <<i - litIndex, e[1], e[2], 0>>), lits \o SubSeq(t, litIndex + 1, i))

HasEdges(es) == \E k \in 1..Len(es) : es[k] # <<>>

DoParse ==
  \E fl \in {0, 1} :
    LET n == Min(avail - w, cf.Blk) IN
    /\ n > 0
    /\ LET data == SubSeq(t, 1, avail)
           need == w + n > start + Len(edges)
           st1  == IF need THEN w ELSE start
           es1  == IF need THEN EdgesFor(data, Max(0, w - cf.Wnd), w) ELSE edges
           blkE == SubSeq(es1, w - st1 + 1, w - st1 + n)
           r == IF ~HasEdges(es1)
                THEN [seqs |-> <<>>, lits |-> <<>>, lit |-> w, i |-> w + n]
                ELSE Emit(ShortestPath(blkE, n), 1, w, w, <<>>, <<>>)
           ntl == HasEdges(es1) /\ fl = 1 /\ r.seqs # <<>>
           newW == IF ntl THEN r.lit ELSE w + n
           lits == IF ntl THEN r.lits ELSE r.lits \o SubSeq(t, r.lit + 1, w + n)
           e1 == [op |-> "parse", flags |-> fl, n |-> newW - w, err |-> "", seqs |-> r.seqs, lits |-> lits]
       IN /\ ev' = e1
          /\ st' = PEff(st, e1)
          /\ w' = newW
          /\ start' = st1 /\ edges' = es1
          /\ ops' = IF EmitOps THEN Append(ops, [op |-> "parse", flags |-> fl,
                                                  expect |-> [n |-> newW - w, seqs |-> r.seqs]]) ELSE ops
    /\ UNCHANGED <<t, avail, cf>>

WriteRest ==
  /\ avail < Len(t)
  /\ avail' = Len(t)
  /\ st' = PEff(st, [op |-> "write", p |-> SubSeq(t, avail + 1, Len(t)), n |-> Len(t) - avail, err |-> ""])
  /\ ev' = [op |-> "write", p |-> SubSeq(t, avail + 1, Len(t)), n |-> Len(t) - avail, err |-> ""]
  /\ ops' = IF EmitOps THEN Append(ops, [op |-> "write", p |-> SubSeq(t, avail + 1, Len(t))]) ELSE ops
  /\ UNCHANGED <<t, cf, w, start, edges>>

Next == DoParse \/ WriteRest
Spec == Init /\ [][Next]_vars

Refines == [][ev'.op = "parse" => PWhy(st, ev', {"C11"}) = {}]_vars
StateInv == w = st.w /\ w <= avail

(* history output: every transition in the small scopes, a random sample    *)
(* (one in EmitEvery) in the large ones - the model check itself always     *)
(* covers the whole scope                                                    *)
EmitAC == EmitOps => ((EmitEvery = 1 \/ RandomElement(1..EmitEvery) = 1) => PrintT(<<"VERIF_OPS", ToJson(ops')>>))
=============================================================================
