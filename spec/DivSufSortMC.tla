---------------------------- MODULE DivSufSortMC ----------------------------
(***************************************************************************)
(* Small-scope check of DivSufSort.tla: every text over 0..Sigma-1 with    *)
(* 3..MaxN bytes is one initial state; the stages run as actions so that   *)
(* every stage contract is an invariant of its own.                        *)
(***************************************************************************)
EXTENDS DivSufSort, Json

CONSTANTS Sigma, MaxN, Variant, EmitOps

VARIABLES t, stage, r
vars == <<t, stage, r>>

RECURSIVE SeqsUpTo(_, _)
SeqsUpTo(S, n) == IF n = 0 THEN {<<>>} ELSE SeqsUpTo(S, n - 1) \cup [1..n -> S]

Init == t \in { x \in SeqsUpTo(0..Sigma - 1, MaxN) : Len(x) >= 3 } /\ stage = "start" /\ r = <<>>
Next ==
  \/ stage = "start" /\ stage' = "done" /\ r' = Run(t, Sigma, Variant) /\ UNCHANGED t
  \/ stage = "done" /\ UNCHANGED vars
Spec == Init /\ [][Next]_vars

n == Len(t)
Rank(p) == CHOOSE x \in 0..n - 1 : SAof(t)[x + 1] = p
Abs(x) == IF x < 0 THEN -x ELSE x

(* stage 1 *)
Contract_Classify ==
  stage = "done" =>
    /\ \A c \in 0..Sigma - 1 : r.cl.a[c] = Cardinality({ i \in 0..n - 1 : IsA(t, i) /\ Ch(t, i) = c })
    /\ \A c0, c1 \in 0..Sigma - 1 :
         /\ c0 <= c1 => r.cl.arr[BIx(Sigma, c0, c1)] =
                          Cardinality({ i \in 0..n - 2 : IsB(t, i) /\ ~IsBStar(t, i) /\ Ch(t, i) = c0 /\ Ch(t, i + 1) = c1 })
         /\ c0 < c1 => r.cl.arr[SIx(Sigma, c0, c1)] =
                          Cardinality({ i \in 0..n - 2 : IsBStar(t, i) /\ Ch(t, i) = c0 /\ Ch(t, i + 1) = c1 })
    /\ r.cl.pos = SortSeq(SetToSeq({ i \in 0..n - 2 : IsBStar(t, i) }), <)
(* stage 2: A pointers are the bucket starts *)
Contract_Offsets ==
  stage = "done" => \A c \in 0..Sigma - 1 : r.a[c] = Cardinality({ i \in 0..n - 1 : Ch(t, i) < c })
(* stage 5: every B* suffix sits at its final index, nothing was clobbered *)
Contract_Copy ==
  (stage = "done" /\ Variant \in {"code", "impl"}) =>
    /\ r.cp.ok
    /\ \A q \in 1..r.m : r.sa5[Rank(r.sb[q])] = Flag(t, r.sb[q])
    /\ Cardinality(r.cp.live) = r.m
(* stage 6: every B suffix sits at its final index; positive = the suffix in front is of type A *)
Contract_InduceB ==
  (stage = "done" /\ Variant \in {"code", "impl"}) =>
    /\ r.ib.ok
    /\ \A p \in 0..n - 1 :
         IF IsB(t, p) THEN /\ Abs(r.ib.sa[Rank(p)]) = p
                           /\ (r.ib.sa[Rank(p)] > 0 <=> (p > 0 /\ IsA(t, p - 1)))
         ELSE r.ib.sa[Rank(p)] = G
(* stage 7: the suffix array *)
Contract_Result ==
  (stage = "done" /\ Variant \in {"code", "impl"}) =>
    /\ r.ia.ok
    /\ \A x \in 0..n - 1 : r.ia.sa[x] = SAof(t)[x + 1]
(* stage 3, the reduction the two sorting engines rest on: ordering the B*   *)
(* suffixes is ordering the suffixes of the string of B* SUBSTRING ranks    *)
(* (ssort ranks the substrings, trSort sorts the rank string by doubling)   *)
Pos == r.cl.pos
BSub(l) == IF l = r.m - 1 THEN SubSeq(t, Pos[r.m] + 1, n) ELSE SubSeq(t, Pos[l + 1] + 1, Pos[l + 2] + 2)
SeqLeq(u, v) == LET RECURSIVE le(_)
                    le(k) == IF k > Len(u) THEN TRUE ELSE IF k > Len(v) THEN FALSE
                             ELSE IF u[k] # v[k] THEN u[k] < v[k] ELSE le(k + 1)
                IN le(1)
SubRank(l) == Cardinality({ k \in 0..r.m - 1 : SeqLeq(BSub(k), BSub(l)) }) - 1
RankStr(l) == [k \in 1..r.m - l |-> SubRank(l + k - 1)]       \* ranks of the substrings l, l+1, ..
StrictLess(u, v) == u # v /\ SeqLeq(u, v)
Contract_Reduction ==
  stage = "done" =>
    \A l1, l2 \in 0..r.m - 1 :
      l1 # l2 => (SufLess(t, Pos[l1 + 1], Pos[l2 + 1]) <=> StrictLess(RankStr(l1), RankStr(l2)))

Inv == Contract_Reduction /\ Contract_Classify /\ Contract_Offsets /\ Contract_Copy /\ Contract_InduceB /\ Contract_Result

(* the broken stage contract must show: used with Variant = "swap" *)
SwapHarmless == (stage = "done" /\ r.m >= 2) => (r.ia.ok /\ \A x \in 0..n - 1 : r.ia.sa[x] = SAof(t)[x + 1])
=============================================================================
