SPECIFICATION Spec
CONSTANTS
  Alpha = {0, 1}
  MaxN = 12
INVARIANT Inv
CHECK_DEADLOCK FALSE
