SPECIFICATION Spec
CONSTANTS
  Alpha = {0, 1}
  MaxN = 7
  Blks = {16}
  MinMs = {2}
  MaxMs = {8}
  Wnds = {16}
  Variant = "norelax"
  EmitOps = FALSE
  EmitEvery = 1
INVARIANT StateInv
PROPERTY Refines
VIEW View
CHECK_DEADLOCK FALSE
