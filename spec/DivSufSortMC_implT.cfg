SPECIFICATION Spec
CONSTANTS
  Sigma = 3
  MaxN = 9
  Variant = "impl"
  EmitOps = FALSE
INVARIANT Inv
CHECK_DEADLOCK FALSE
