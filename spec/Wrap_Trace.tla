----------------------------- MODULE Wrap_Trace -----------------------------
(***************************************************************************)
(* Trace validation of recorded WrappedParser executions.  Two layers are  *)
(* validated in one pass:                                                  *)
(*   - the calls the wrapper makes on the inner parser (recorded by a      *)
(*     proxy implementing lz.Parser: parse / parsenil / shrink / readfrom  *)
(*     / reset events) against the ParserSM envelope, state st;            *)
(*   - the calls of the user on the wrapper (wparse / wparsenil / wreset,  *)
(*     with the reader calls made inside) against the Wrap envelope,       *)
(*     state ws.                                                           *)
(* After every wrapper call the two layers must agree (LayersAgree): what  *)
(* the reader handed out is what the inner parser accepted, and what was   *)
(* delivered is what the inner parser parsed.  Monitor style, see          *)
(* DecoderBuf_Trace.                                                       *)
(***************************************************************************)
EXTENDS Wrap, Json, IOUtils

Trace == ndJsonDeserialize(IOEnv.VERIF_TRACE)

Soft == {"C19.right_maximal", "C19.left_maximal", "C19.run_literals",
         "C12.match_longest", "C12.literal_justified", "C12.no_longer_match", "C11.cost_optimal", "C11.not_above_witness", "C00.witness_invalid"}

MaxHard == 3   \* failing events recorded per trace before the rest is skipped

VARIABLES l, st, ws, bad, tid
vars == <<l, st, ws, bad, tid>>

NoCfg == [kind |-> "HP", B |-> 1, S |-> 0, Wnd |-> 1, Blk |-> 1, il |-> 3, mm |-> 3, xm |-> 3]

WrapOps == {"wparse", "wparsenil", "wreset"}

TraceInit ==
  /\ l = 1
  /\ st = PInit(NoCfg)
  /\ ws = WInit(NoCfg)
  /\ bad = 0
  /\ tid = ""
  /\ TLCSet(1, <<>>)

LayersAgree(s, w) ==
  { <<"C08.layers_agree", s.inp = w.src /\ s.w = w.del>> }

Why(e) ==
  IF e.op \in WrapOps \/ (e.op \in {"panic", "timeout", "livelock", "stalled"})
  THEN LET w2 == WEff(ws, e)
           r  == WRules(ws, e) \cup (IF e.op \in {"wparse", "wparsenil"} THEN LayersAgree(st, w2) ELSE {})
       IN { x[1] : x \in { y \in r : ~y[2] } }
  ELSE PWhy(st, e, {})

TraceNext ==
  /\ l <= Len(Trace)
  /\ l' = l + 1
  /\ LET e == Trace[l] IN
     IF e.op = "begin"
     THEN /\ tid' = e.tid
          /\ st' = PInit(e.c)
          /\ ws' = WInit(e.c)
          /\ bad' = 0
     ELSE IF bad >= MaxHard \/ e.op = "end"
     THEN UNCHANGED <<tid, st, ws, bad>>
     ELSE LET why == Why(e) IN
          IF why \subseteq Soft
          THEN /\ IF e.op \in WrapOps THEN ws' = WEff(ws, e) /\ st' = st
                  ELSE st' = PEff(st, e) /\ ws' = ws
               /\ UNCHANGED <<tid, bad>>
               /\ (why # {} => TLCSet(1, Append(TLCGet(1), [tid |-> tid, line |-> l, why |-> why])))
          ELSE \* a hard rule failed: record it; keep validating the rest of the
               \* trace from the state the event claims, as long as that state is sane
               /\ TLCSet(1, Append(TLCGet(1), [tid |-> tid, line |-> l, why |-> why]))
               /\ UNCHANGED tid
               /\ IF bad + 1 < MaxHard /\ PStateOk(IF e.op \in WrapOps THEN st ELSE PEff(st, e))
                        /\ WStateOk(IF e.op \in WrapOps THEN WEff(ws, e) ELSE ws)
                     THEN /\ bad' = bad + 1
                          /\ IF e.op \in WrapOps THEN ws' = WEff(ws, e) /\ st' = st
                             ELSE st' = PEff(st, e) /\ ws' = ws
                     ELSE bad' = MaxHard /\ UNCHANGED <<st, ws>>

TraceSpec == TraceInit /\ [][TraceNext]_vars
TraceInv == bad >= MaxHard \/ (PStateOk(st) /\ WStateOk(ws))

Post ==
  /\ PrintT(<<"VERIF_BAD", ToJson(TLCGet(1))>>)
  /\ PrintT(<<"VERIF_LINES", TLCGet("stats").diameter - 1, Len(Trace)>>)
=============================================================================
