SPECIFICATION Spec
CONSTANTS
  Alpha = {0, 1}
  Scope = "quick"
  MaxInp = 7
  MaxWrite = 3
  Variant = "code"
  EmitOps = TRUE
  Backward = TRUE
  EmitEvery = 1
INVARIANT Inv
PROPERTY Refines
ACTION_CONSTRAINT Emit
VIEW View
CHECK_DEADLOCK FALSE
