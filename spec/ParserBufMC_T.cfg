SPECIFICATION Spec
CONSTANTS
  Bs = {1, 2, 3, 4}
  Alpha = {0, 1}
  MaxInp = 7
  MaxWrite = 3
  Blks = {1, 2, 3}
  EmitOps = FALSE
INVARIANT Inv
PROPERTY Refines
VIEW View
CHECK_DEADLOCK FALSE
