SPECIFICATION Spec
CONSTANTS
  Bs = {1, 2, 3}
  Alpha = {0, 1}
  MaxInp = 5
  MaxWrite = 2
  Blks = {1, 2}
  EmitOps = FALSE
INVARIANT Inv
PROPERTY Refines
VIEW View
CHECK_DEADLOCK FALSE
