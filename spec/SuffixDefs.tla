----------------------------- MODULE SuffixDefs -----------------------------
(***************************************************************************)
(* Definitions and envelope rules for package suffix: properties C09       *)
(* (Sort / LCP / InvertSA) and C10 (Segments).                             *)
(*                                                                         *)
(* Texts are tuples of bytes; suffixes are named by their 0-based start.   *)
(* Arrays of the Go code (sa, lcp, sainv) are tuples, element i of the Go  *)
(* slice is element i+1 of the tuple.                                      *)
(*                                                                         *)
(* Two forms of "sa is the suffix array of t":                             *)
(*   IsSA        definitional: a permutation whose adjacent suffixes are   *)
(*               strictly increasing in lexicographic order                *)
(*   IsSAlinear  rank based (the classical linear-time checker): suffix    *)
(*               a precedes b iff t[a] < t[b], or t[a] = t[b] and the      *)
(*               rest a+1 precedes the rest b+1 by rank; needs the inverse *)
(*   SuffixMC checks IsSA <=> IsSAlinear for all small texts and all       *)
(*   permutations, which justifies using the linear form on long texts.    *)
(***************************************************************************)
EXTENDS Integers, Sequences, FiniteSets, TLC

SMin(a, b) == IF a < b THEN a ELSE b

N(t) == Len(t)
Ch(t, i) == t[i + 1]          \* byte at 0-based position i

(* common prefix length of the suffixes a and b *)
RECURSIVE LcpFrom(_, _, _, _)
LcpFrom(t, a, b, acc) ==
  IF a + acc >= N(t) \/ b + acc >= N(t) THEN acc
  ELSE IF Ch(t, a + acc) # Ch(t, b + acc) THEN acc
  ELSE LcpFrom(t, a, b, acc + 1)
SLcp(t, a, b) == LcpFrom(t, a, b, 0)

(* suffix a < suffix b lexicographically (a # b) *)
SuffixLess(t, a, b) ==
  LET l == SLcp(t, a, b) IN
  IF b + l >= N(t) THEN FALSE           \* b is a prefix of a (or equal): a > b
  ELSE IF a + l >= N(t) THEN TRUE       \* a is a proper prefix of b
  ELSE Ch(t, a + l) < Ch(t, b + l)

InRange(t, sa) == Len(sa) = N(t) /\ \A i \in 1..Len(sa) : sa[i] \in 0..N(t) - 1
IsPerm(t, sa) == InRange(t, sa) /\ \A i, j \in 1..Len(sa) : i # j => sa[i] # sa[j]

IsSA(t, sa) ==
  /\ IsPerm(t, sa)
  /\ \A i \in 2..Len(sa) : SuffixLess(t, sa[i - 1], sa[i])

(* inv is the inverse of sa: inv[sa[i]] = i (0-based values)                *)
IsInverse(sa, inv) ==
  /\ Len(inv) = Len(sa)
  /\ \A i \in 1..Len(sa) : sa[i] \in 0..Len(sa) - 1 /\ inv[sa[i] + 1] = i - 1

Rank(inv, t, a) == IF a >= N(t) THEN -1 ELSE inv[a + 1]

IsSAlinear(t, sa, inv) ==
  /\ InRange(t, sa)
  /\ IsInverse(sa, inv)       \* with InRange: sa is injective, hence a permutation
  /\ \A i \in 2..Len(sa) :
       LET a == sa[i - 1]
           b == sa[i]
       IN \/ Ch(t, a) < Ch(t, b)
          \/ (Ch(t, a) = Ch(t, b) /\ Rank(inv, t, a + 1) < Rank(inv, t, b + 1))

(* lcp[0] = 0, lcp[i] = common prefix of the suffixes sa[i-1] and sa[i].    *)
(* Written with SubSeq equality (one native comparison per entry) plus the *)
(* mismatch right behind the common prefix.                                *)
LcpEntryOk(t, a, b, l) ==
  /\ l >= 0 /\ a + l <= N(t) /\ b + l <= N(t)
  /\ SubSeq(t, a + 1, a + l) = SubSeq(t, b + 1, b + l)
  /\ (a + l = N(t) \/ b + l = N(t) \/ Ch(t, a + l) # Ch(t, b + l))

IsLCP(t, sa, lcp) ==
  /\ Len(lcp) = Len(sa)
  /\ (Len(lcp) > 0 => lcp[1] = 0)
  /\ \A i \in 2..Len(sa) : LcpEntryOk(t, sa[i - 1], sa[i], lcp[i])

(* definitional variant for the model checker *)
IsLCPdef(t, sa, lcp) ==
  /\ Len(lcp) = Len(sa)
  /\ (Len(lcp) > 0 => lcp[1] = 0)
  /\ \A i \in 2..Len(sa) : lcp[i] = SLcp(t, sa[i - 1], sa[i])

(***************************************************************************)
(* C10: groups of suffixes sharing a prefix.  A callback is <<m, seg>>     *)
(* with seg a tuple of suffix indices.                                     *)
(***************************************************************************)
SegSet(cb) == { cb[2][i] : i \in 1..Len(cb[2]) }

Share(t, x, y, m) == x + m <= N(t) /\ y + m <= N(t) /\ SubSeq(t, x + 1, x + m) = SubSeq(t, y + 1, y + m)

CbValid(t, minLen, maxLen, cb) ==
  /\ cb[1] >= minLen /\ cb[1] <= maxLen

(* pairwise form (the statement of C10), for short texts *)
PairOnce(t, minLen, maxLen, cbs) ==
  \A x, y \in 0..N(t) - 1 :
    x < y =>
      LET c == SLcp(t, x, y) IN
      c >= minLen =>
        Cardinality({ k \in 1..Len(cbs) :
                        cbs[k][1] = SMin(c, maxLen) /\ x \in SegSet(cbs[k]) /\ y \in SegSet(cbs[k]) }) = 1

(* interval form, for long texts: with the (verified) suffix array and LCP *)
(* table the groups are the lcp-intervals of the clipped LCP values.  For  *)
(* every rank r with clipped value v = min(lcp[r], maxLen) >= minLen the   *)
(* maximal rank interval around r whose clipped values are >= v is a       *)
(* group of value v; the callbacks must be exactly these groups, once.     *)
Clip(lcp, r, maxLen) == SMin(lcp[r], maxLen)       \* r is a 1-based tuple index >= 2

RECURSIVE LeftEnd(_, _, _, _)
LeftEnd(lcp, r, v, maxLen) ==        \* smallest a such that Clip(a+1..r) >= v, 1-based rank of the first member
  IF r - 1 >= 2 /\ Clip(lcp, r - 1, maxLen) >= v THEN LeftEnd(lcp, r - 1, v, maxLen) ELSE r - 1
RECURSIVE RightEnd(_, _, _, _)
RightEnd(lcp, r, v, maxLen) ==
  IF r + 1 <= Len(lcp) /\ Clip(lcp, r + 1, maxLen) >= v THEN RightEnd(lcp, r + 1, v, maxLen) ELSE r

ExpectedGroups(sa, lcp, minLen, maxLen) ==
  { LET v == Clip(lcp, r, maxLen)
        a == LeftEnd(lcp, r, v, maxLen)
        b == RightEnd(lcp, r, v, maxLen)
    IN <<v, { sa[i] : i \in a..b }>> : r \in { q \in 2..Len(lcp) : Clip(lcp, q, maxLen) >= minLen } }

(* Interval form of "exactly one callback for every pair":                 *)
(*  (1) every expected group is reported, completely, exactly once;        *)
(*  (2) any other callback with two or more members must not contain a     *)
(*      pair whose clipped common prefix equals its m (it would be a       *)
(*      second callback for that pair).  With all members sharing m bytes  *)
(*      this holds iff the smallest clipped LCP value between the lowest   *)
(*      and the highest ranked member is larger than m.  (The code emits   *)
(*      such a callback: the root group with m = 0 when minLen = 0 and no  *)
(*      two adjacent suffixes differ in their first byte.)                 *)
(*  Callbacks with one member contain no pair and only have to be valid.   *)
RECURSIVE RankBounds(_, _, _, _, _)
RankBounds(seg, inv, i, lo, hi) ==       \* 1-based ranks of the lowest / highest ranked member
  IF i > Len(seg) THEN <<lo, hi>>
  ELSE LET r == inv[seg[i] + 1] + 1 IN
       RankBounds(seg, inv, i + 1, IF r < lo THEN r ELSE lo, IF r > hi THEN r ELSE hi)

RECURSIVE RangeMin(_, _, _, _, _)
RangeMin(lcp, a, b, maxLen, acc) ==      \* min of Clip(lcp, a..b)
  IF a > b THEN acc ELSE RangeMin(lcp, a + 1, b, maxLen, SMin(acc, Clip(lcp, a, maxLen)))

GroupsExact(sa, inv, lcp, minLen, maxLen, cbs) ==
  LET exp   == TLCEval(ExpectedGroups(sa, lcp, minLen, maxLen))
      keys  == TLCEval([k \in 1..Len(cbs) |-> <<cbs[k][1], SegSet(cbs[k])>>])
      inexp == TLCEval({ k \in 1..Len(cbs) : keys[k] \in exp })
  IN /\ exp \subseteq { keys[k] : k \in 1..Len(cbs) }          \* every group reported, completely
     /\ Cardinality(inexp) = Cardinality(exp)                  \* ... and only once
     /\ \A k \in 1..Len(cbs) :
          (Len(cbs[k][2]) >= 2 /\ k \notin inexp) =>
             LET b == RankBounds(cbs[k][2], inv, 1, Len(sa) + 1, 0) IN
             RangeMin(lcp, b[1] + 1, b[2], maxLen, IF maxLen >= 2147483647 THEN maxLen ELSE maxLen + 1) > cbs[k][1]

(* children first: a group strictly contained in another one is reported    *)
(* before it.  Groups that are contiguous rank intervals (all groups the    *)
(* code reports) are compared by their rank bounds.                         *)
ChildrenFirstSets(cbs) ==
  \A a, b \in 1..Len(cbs) :
    (SegSet(cbs[a]) \subseteq SegSet(cbs[b]) /\ SegSet(cbs[a]) # SegSet(cbs[b])) => a < b

ChildrenFirstRanks(inv, n, cbs) ==
  LET bd == TLCEval([k \in 1..Len(cbs) |-> RankBounds(cbs[k][2], inv, 1, n + 1, 0)])
      contiguous == \A k \in 1..Len(cbs) : bd[k][2] - bd[k][1] + 1 = Len(cbs[k][2])
  IN IF ~contiguous THEN ChildrenFirstSets(cbs)
     ELSE \A a, b \in 1..Len(cbs) :
            (bd[b][1] <= bd[a][1] /\ bd[a][2] <= bd[b][2] /\ Len(cbs[a][2]) < Len(cbs[b][2])) => a < b

SegRules(t, sa, inv, lcp, minLen, maxLen, cbs, pairwise) ==
  {
    <<"C10.m_range", \A k \in 1..Len(cbs) : cbs[k][1] >= minLen /\ cbs[k][1] <= maxLen>>,
    <<"C10.members_distinct",
      \A k \in 1..Len(cbs) : /\ Cardinality(SegSet(cbs[k])) = Len(cbs[k][2])
                             /\ SegSet(cbs[k]) \subseteq 0..N(t) - 1>>,
    <<"C10.members_share",
      \A k \in 1..Len(cbs) : \A i \in 1..Len(cbs[k][2]) :
         cbs[k][2][i] \in 0..N(t) - 1 /\ cbs[k][2][1] \in 0..N(t) - 1
         /\ Share(t, cbs[k][2][1], cbs[k][2][i], cbs[k][1])>>,
    <<"C10.pair_once",
      IF pairwise THEN PairOnce(t, minLen, maxLen, cbs)
      ELSE GroupsExact(sa, inv, lcp, minLen, maxLen, cbs)>>,
    <<"C10.children_first",
      IF pairwise THEN ChildrenFirstSets(cbs)
      ELSE (\A k \in 1..Len(cbs) : Cardinality(SegSet(cbs[k])) = Len(cbs[k][2]) /\ SegSet(cbs[k]) \subseteq 0..N(t) - 1)
             => ChildrenFirstRanks(inv, N(t), cbs)>>
  }

(***************************************************************************)
(* Rules per recorded event.                                               *)
(*  suffix    t, sa (from Sort, sa pre-filled with garbage), tafter, sainv *)
(*            (InvertSA), lcps (LCP called with sa/sainv supplied or nil)  *)
(*  suffixcfg the same through the verif-tagged SortCfg hook with other    *)
(*            introsort thresholds (informational: DRIFT.* rules)          *)
(*  suffixstages  t, sa and the arrays s4, s5, s6 the sort driver holds     *)
(*            between its stages (verif hook VerifStage), compared with    *)
(*            the stage model DivSufSort.tla (informational DRIFT rules),  *)
(*            rounds = the ranks at the start of every doubling round of   *)
(*            the rank sort (TrSortRounds.tla)                             *)
(*  segments  t, sa, lcp, minlen, maxlen, cbs (callbacks in call order)    *)
(***************************************************************************)
(* ---- scanLCP as a pure operator (the step machine is Segments.tla): the    *)
(* ---- callbacks in call order, each <<m, set of the suffixes sa[top.j..j)>> *)
RECURSIVE ScanInner(_, _, _, _, _, _, _, _), ScanOuter(_, _, _, _, _, _)
ScanInner(sa, lcp, minLen, maxLen, j, nn, lb, st) ==        \* st: <<stack, out>>
  LET stack == st[1]
      top   == stack[Len(stack)]
  IN IF nn > top[1] THEN ScanOuter(sa, lcp, minLen, maxLen, j + 1, <<Append(stack, <<nn, lb>>), st[2]>>)
     ELSE IF nn = top[1] THEN ScanOuter(sa, lcp, minLen, maxLen, j + 1, st)
     ELSE LET out1 == IF top[1] >= minLen
                      THEN Append(st[2], <<top[1], { sa[i + 1] : i \in top[2]..j - 1 }>>) ELSE st[2]
              stk1 == SubSeq(stack, 1, Len(stack) - 1)
          IN IF stk1 = <<>> THEN out1
             ELSE ScanInner(sa, lcp, minLen, maxLen, j, nn, top[2], <<stk1, out1>>)
ScanOuter(sa, lcp, minLen, maxLen, j, st) ==
  LET nn == IF j < Len(lcp) THEN (IF lcp[j + 1] > maxLen THEN maxLen ELSE lcp[j + 1]) ELSE -1 IN
  ScanInner(sa, lcp, minLen, maxLen, j, nn, j - 1, st)
ScanLCPCalls(sa, lcp, minLen, maxLen) ==
  IF Len(sa) = 0 THEN <<>> ELSE ScanOuter(sa, lcp, minLen, maxLen, 1, <<<< <<0, 0>> >>, <<>>>>)

(* ---- the stages of the sort driver against the stage model ---- *)
DSS == INSTANCE DivSufSort
TRS == INSTANCE TrSortImpl
SSI == INSTANCE SsortImpl
RECURSIVE MaxByte(_, _, _)
MaxByte(t, i, acc) == IF i > Len(t) THEN acc ELSE MaxByte(t, i + 1, IF t[i] > acc THEN t[i] ELSE acc)

StageRules(e) ==
  LET n  == Len(e.t)
      \* the driver only compares bytes: an order-preserving renaming of the
      \* alphabet keeps every array the same and the bucket tables small
      bytes == { e.t[i] : i \in 1..n }
      t  == TLCEval([i \in 1..n |-> Cardinality({ b \in bytes : b < e.t[i] })])
      sg == Cardinality(bytes)
  IN IF n < 3 \/ n > 200 \/ sg > 48 THEN {}
     ELSE LET r   == TLCEval(DSS!Run(t, sg, "code"))
              m   == r.m
              pos == r.cl.pos                        \* B* positions in text order, pos[l + 1] for index l
              \* the B* substring of index l: up to and including the first two bytes of the next one
              Sub(l) == IF l = m - 1 THEN SubSeq(t, pos[m] + 1, n) ELSE SubSeq(t, pos[l + 1] + 1, pos[l + 2] + 2)
              Leq(u, v) == LET RECURSIVE le(_)
                               le(k) == IF k > Len(u) THEN TRUE ELSE IF k > Len(v) THEN FALSE
                                        ELSE IF u[k] # v[k] THEN u[k] < v[k] ELSE le(k + 1)
                           IN le(1)
              Dec(x) == IF x < 0 THEN -x - 1 ELSE x  \* ^x marks "equal to the substring in front"
              subF == TLCEval([l \in 0..m - 1 |-> Sub(l)])
              subRankF == TLCEval([l \in 0..m - 1 |-> Cardinality({ k \in 0..m - 1 : Leq(subF[k], subF[l]) }) - 1])
              sufRankF == TLCEval([l \in 0..m - 1 |-> Cardinality({ k \in 0..m - 1 : DSS!SufLess(t, pos[k + 1], pos[l + 1]) })])
              SubRank(l) == subRankF[l]
              SufRank(l) == sufRankF[l]
          IN {
       (* stage contracts of the two sorting engines (ssort, trSort) *)
       <<"DRIFT09.stage1_substrings",
         (e.m = m /\ m > 0) =>
           /\ Len(e.s1) = m
           /\ { Dec(e.s1[i]) : i \in 1..m } = 0..m - 1
           /\ e.s1[1] >= 0
           /\ \A i \in 2..m : /\ Leq(subF[Dec(e.s1[i - 1])], subF[Dec(e.s1[i])])
                               /\ (e.s1[i] < 0 <=> subF[Dec(e.s1[i - 1])] = subF[Dec(e.s1[i])])>>,
       (* the transcribed substring sort (SsortImpl.tla: bucket placement,   *)
       (* ssort per bucket, rank fill) must leave exactly the arrays the     *)
       (* real driver holds after stages 1 and 2                            *)
       <<"DRIFT09.ssort_exact",
         (e.m = m /\ m > 0 /\ m <= 100 /\ Len(e.s1) = m /\ Len(e.s2) = 2 * m) =>
           LET pf    == [k \in 0..m - 1 |-> pos[k + 1]]
               keyOf(k) == <<t[pos[k + 1] + 1], t[pos[k + 1] + 2]>>
               keys  == { keyOf(k) : k \in 0..m - 1 }
               KLess(c, c2) == c[1] < c2[1] \/ (c[1] = c2[1] /\ c[2] < c2[2])
               ends0 == [c \in keys |-> Cardinality({ k \in 0..m - 1 : keyOf(k) = c \/ KLess(keyOf(k), c) })]
               pl    == SSI!Place([i \in 0..m - 1 |-> 0], t, pos, 0, ends0, 0)
               RECURSIVE desc(_, _)
               desc(S, acc) == IF S = {} THEN acc
                               ELSE LET c == CHOOSE c \in S : \A c2 \in S : c2 = c \/ KLess(c2, c)
                                    IN desc(S \ {c}, Append(acc, c))
               thr   == IF "st" \in DOMAIN e /\ e.st > 0 THEN e.st ELSE 7
               a1    == TLCEval(SSI!SortBuckets(pl[1], t, pf, pl[2], desc(keys, <<>>), m, pl[3], thr))
               rf    == TLCEval(SSI!RankFill(a1))
           IN /\ \A i \in 0..m - 1 : a1[i] = e.s1[i + 1]
              /\ \A i \in 0..m - 1 : rf[1][i] = e.s2[i + 1] /\ rf[2][i] = e.s2[m + i + 1]>>,
       <<"DRIFT09.stage2_ranks",
         (e.m = m /\ m > 0) => (Len(e.s2) = 2 * m /\ \A l \in 0..m - 1 : e.s2[m + l + 1] = SubRank(l))>>,
       (* the rank sort, round by round (TrSortRounds.tla): at the start of   *)
       (* round k (depth 2^(k-1)) the ranks never contradict the true order,  *)
       (* are group maxima, and members of a group share `depth` substring    *)
       (* ranks with the reads at x + depth inside the array                  *)
       <<"DRIFT09.round_contract",
         (e.m = m /\ m > 0) =>
           \A k \in 1..Len(e.rounds) :
             LET f  == e.rounds[k]
                 dk == 2 ^ (k - 1)
             IN /\ Len(f) = m
                /\ \A x, y \in 0..m - 1 : f[x + 1] < f[y + 1] => SufRank(x) < SufRank(y)
                /\ \A x \in 0..m - 1 : f[x + 1] = Cardinality({ y \in 0..m - 1 : f[y + 1] <= f[x + 1] }) - 1
                /\ \A x, y \in 0..m - 1 :
                     (x # y /\ f[x + 1] = f[y + 1]) =>
                        /\ x + dk < m /\ y + dk < m
                        /\ \A j \in 0..dk - 1 : SubRank(x + j) = SubRank(y + j)>>,
       (* the transcribed rank sort (TrSortImpl.tla) run on the arrays the    *)
       (* real driver handed to trSort must leave exactly the arrays the     *)
       (* real trSort left, and start every round from the same ranks        *)
       <<"DRIFT09.trsort_exact",
         (e.m = m /\ m > 0 /\ m <= 100 /\ Len(e.s2) = 2 * m /\ Len(e.s3) = 2 * m) =>
           LET sa0  == [i \in 0..m - 1 |-> e.s2[i + 1]]
               isa0 == [i \in 0..m - 1 |-> e.s2[m + i + 1]]
               tr   == TLCEval(TRS!TrSort(sa0, isa0, IF "trst" \in DOMAIN e THEN e.trst ELSE 0))
           IN /\ \A i \in 0..m - 1 : tr.sa[i] = e.s3[i + 1] /\ tr.isa[i] = e.s3[m + i + 1]
              /\ Len(tr.rounds) = Len(e.rounds)
              /\ \A k \in 1..Len(e.rounds) : \A i \in 0..m - 1 : tr.rounds[k][i] = e.rounds[k][i + 1]>>,
       <<"DRIFT09.stage3_bstar_order",
         (e.m = m /\ m > 0) => (Len(e.s3) = 2 * m /\ \A l \in 0..m - 1 : e.s3[m + l + 1] = SufRank(l))>>,
       <<"DRIFT09.stage_m", e.m = r.m>>,
       <<"DRIFT09.stage4_flags", e.m = r.m => \A x \in 0..r.m - 1 : e.s4[x + 1] = r.sa4[x]>>,
       <<"DRIFT09.stage5_copy", (r.m > 0 /\ Len(e.s5) = n) => \A x \in r.cp.live : e.s5[x + 1] = r.cp.sa[x]>>,
       <<"DRIFT09.stage6_induceB",
         (r.m > 0 /\ Len(e.s6) = n) => \A x \in 0..n - 1 : r.ib.sa[x] # DSS!G => e.s6[x + 1] = r.ib.sa[x]>>,
       <<"DRIFT09.stage7_result", Len(e.sa) = n /\ \A x \in 0..n - 1 : e.sa[x + 1] = r.ia.sa[x]>>
     }

SortRules(e, prefix) ==
  LET t == e.t
      def == N(t) <= 48
  IN {
    <<prefix \o ".t_untouched", e.tafter = t>>,
    <<prefix \o ".perm", InRange(t, e.sa) /\ IsInverse(e.sa, e.sainv)>>,
    <<prefix \o ".sorted",
      /\ IsSAlinear(t, e.sa, e.sainv)
      /\ (def => IsSA(t, e.sa))>>
  }

SuffixRules(e) ==
  CASE e.op = "suffix" ->
      SortRules(e, "C09") \cup {
        <<"C09.inverse", InRange(e.t, e.sa) => IsInverse(e.sa, e.sainv)>>,
        <<"C09.lcp0", \A k \in 1..Len(e.lcps) : Len(e.lcps[k]) = N(e.t) /\ (N(e.t) > 0 => e.lcps[k][1] = 0)>>,
        <<"C09.lcp",
          (InRange(e.t, e.sa) /\ IsInverse(e.sa, e.sainv)) =>
             \A k \in 1..Len(e.lcps) : IsLCP(e.t, e.sa, e.lcps[k])>>
      }
    [] e.op = "suffixcfg" -> SortRules(e, "DRIFT09")
    [] e.op = "suffixstages" -> StageRules(e)
    [] e.op = "lcplcs" ->
      (* lcp / lcs of bytes.go against their definitions (WordOps.tla has the *)
      (* word-wise transcription; its predictions are compared as DRIFT)      *)
      LET RECURSIVE dl(_), ds(_)
          dl(k) == IF k >= Len(e.p) \/ k >= Len(e.q) \/ e.p[k + 1] # e.q[k + 1] THEN k ELSE dl(k + 1)
          ds(k) == IF k >= Len(e.p) \/ k >= Len(e.q) \/ e.p[Len(e.p) - k] # e.q[Len(e.q) - k] THEN k ELSE ds(k + 1)
      IN { <<"DRIFT19.lcp", e.lcp = dl(0)>>, <<"DRIFT19.lcs", e.lcs = ds(0)>> }
    [] e.op = "trsort" ->
      (* the real trSort on an input enumerated by TrSortMC: TLC runs the    *)
      (* transcription (TrSortImpl.tla) on the recorded input                *)
      LET k    == Len(e.sa)
          sa0  == [i \in 0..k - 1 |-> e.sa[i + 1]]
          isa0 == [i \in 0..k - 1 |-> e.isa[i + 1]]
          tr   == TLCEval(TRS!TrSort(sa0, isa0, e.thr))
      IN { <<"DRIFT09.trsort_exact",
             /\ Len(e.sa_after) = k /\ Len(e.isa_after) = k
             /\ \A i \in 0..k - 1 : tr.sa[i] = e.sa_after[i + 1] /\ tr.isa[i] = e.isa_after[i + 1]
             /\ Len(tr.rounds) = Len(e.rounds)
             /\ \A r \in 1..Len(e.rounds) : \A i \in 0..k - 1 : tr.rounds[r][i] = e.rounds[r][i + 1]>> }
    [] e.op = "sortprim" ->
      (* contract of trHeapSort / trInsertionSort (SortPrims.tla) on the      *)
      (* recorded result: permutation, keys ascend, an entry is complemented *)
      (* exactly when the next entry has the same key                        *)
      LET k  == Len(e.keys)
          f  == e.sa_after
          D(x) == IF x < 0 THEN -x - 1 ELSE x
          K(x) == e.keys[D(x) + 1]
      IN { <<"DRIFT09.sortprim",
             /\ Len(f) = k
             /\ { D(f[i]) : i \in 1..k } = 0..k - 1
             /\ \A i \in 1..k - 1 : K(f[i]) <= K(f[i + 1]) /\ ((f[i] < 0) <=> (K(f[i]) = K(f[i + 1])))
             /\ (k > 0 => f[k] >= 0)>> }
    [] e.op = "trcopy" ->
      (* trCopy / trPartialCopy on a situation of TrCopy.tla: the region is  *)
      (* still a permutation of its members (what the pinned trPartialCopy   *)
      (* broke), nothing outside the region moved; the exact arrays are      *)
      (* compared with the model's by the orchestrator (DRIFT)               *)
      LET reg == (e.first + 1)..e.last IN
      { <<"DRIFT09.trcopy_perm",
          /\ Len(e.sa_after) = Len(e.sa)
          /\ { e.sa_after[i] : i \in reg } = { e.sa[i] : i \in reg }
          /\ \A i \in 1..Len(e.sa) : i \notin reg => e.sa_after[i] = e.sa[i]>> }
    [] e.op = "segments" ->
      LET pre == IsSAlinear(e.t, e.sa, e.sainv) /\ IsLCP(e.t, e.sa, e.lcp) IN
      IF e.minlen > e.maxlen \/ e.minlen < 0 THEN {}        \* outside the quantifier of C10 (only: no panic)
      ELSE IF ~pre THEN { <<"C09.segments_input", FALSE>> } \* the inputs of Segments are wrong: not a C10 verdict
      ELSE SegRules(e.t, e.sa, e.sainv, e.lcp, e.minlen, e.maxlen, e.cbs, N(e.t) <= 40)
           \cup { (* the documentation allows Segments to modify sa only: a caller  *)
                  (* that reuses its LCP table for a second call (another maxLen)  *)
                  (* must get the groups of the text again                         *)
                  <<"C10.lcp_untouched", e.lcp_after = e.lcp>>,
                  (* the transcribed scan predicts the callbacks one by one: same *)
                  (* m and the same set of suffixes, in the same order (a         *)
                  (* difference inside the C10 rules is informational)            *)
                  <<"DRIFT10.scan_exact",
                    LET calls == TLCEval(ScanLCPCalls(e.sa, e.lcp, e.minlen, e.maxlen)) IN
                    /\ Len(calls) = Len(e.cbs)
                    /\ \A k \in 1..Len(calls) : calls[k][1] = e.cbs[k][1] /\ calls[k][2] = SegSet(e.cbs[k])>> }
    [] e.op = "panic" ->
      IF e.in = "segments" THEN { <<"C10.no_panic", FALSE>> }
      ELSE IF e.in \in {"suffixcfg", "suffixstages", "trcopy", "sortprim", "trsort", "lcplcs"} THEN { <<"DRIFT09.no_panic", FALSE>> }
      ELSE { <<"C09.no_panic", FALSE>> }
    [] e.op = "timeout" ->
      IF e.in = "segments" THEN { <<"C10.no_hang", FALSE>> } ELSE { <<"C09.no_hang", FALSE>> }
    [] OTHER -> { <<"C00.unknown_op", FALSE>> }

SuffixWhy(e) == { r[1] : r \in { x \in SuffixRules(e) : ~x[2] } }
=============================================================================
