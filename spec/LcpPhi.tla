------------------------------- MODULE LcpPhi -------------------------------
(***************************************************************************)
(* Implementation-shaped model of suffix._lcp (suffix/lcp.go): the LCP     *)
(* table in text order with the phi function.  One step per text position  *)
(* i: k = sainv[i]; for k = 0 the entry is 0 and the carried length l is   *)
(* reset; otherwise j = sa[k-1] (= phi(i)), the comparison starts at       *)
(* offset l (the l bytes in front are NOT compared again), the entry is    *)
(* the new l, and l is decremented for the next position.                  *)
(*                                                                         *)
(* What makes skipping l bytes sound is the lemma                          *)
(*     lcp(i+1, phi(i+1)) >= lcp(i, phi(i)) - 1,                           *)
(* checked here as the invariant Carried: whenever a comparison starts,    *)
(* the l skipped bytes really agree and lie inside the text.  Result: the  *)
(* table equals the definition (SuffixDefs!IsLCP).  Variant "nodec" (l is  *)
(* not decremented) is refuted by TLC.  Variant "noreset" (l survives the  *)
(* smallest suffix, decremented) passes in every scope tried (ternary <= 7,*)
(* binary <= 10): the reset in the code is a safe simplification, not a    *)
(* necessity - the model records that observation, nothing depends on it.  *)
(*                                                                         *)
(* Every text of the scope is also an input of the real suffix.LCP (the    *)
(* SuffixGen enumeration feeds the same texts), judged by C09.lcp.         *)
(***************************************************************************)
EXTENDS SuffixDefs, SequencesExt

CONSTANTS Alpha, MaxN, Variant

VARIABLES t, i, l, lcp
vars == <<t, i, l, lcp>>

RECURSIVE SeqsUpTo(_, _)
SeqsUpTo(S, n) == IF n = 0 THEN {<<>>} ELSE SeqsUpTo(S, n - 1) \cup [1..n -> S]

SA == SortSeq([x \in 1..Len(t) |-> x - 1], LAMBDA a, b : SuffixLess(t, a, b))
InvSA == [x \in 1..Len(t) |-> (CHOOSE r \in 1..Len(t) : SA[r] = x - 1) - 1]

RECURSIVE MatchLen(_, _, _)          \* common prefix of t[a..] and t[b..] (0-based)
MatchLen(a, b, acc) ==
  IF a + acc >= Len(t) \/ b + acc >= Len(t) THEN acc
  ELSE IF t[a + acc + 1] # t[b + acc + 1] THEN acc
  ELSE MatchLen(a, b, acc + 1)

Init == t \in SeqsUpTo(Alpha, MaxN) /\ i = 0 /\ l = 0 /\ lcp = [x \in 1..Len(t) |-> -1]

Step ==
  /\ i < Len(t)
  /\ LET k == InvSA[i + 1] IN
     IF k = 0
     THEN /\ lcp' = [lcp EXCEPT ![1] = 0]
          /\ l' = IF Variant = "noreset" THEN (IF l > 0 THEN l - 1 ELSE 0) ELSE 0
     ELSE LET j  == SA[k]                          \* sa[k-1], 1-based
              l1 == l + MatchLen(i + l, j + l, 0)
          IN /\ lcp' = [lcp EXCEPT ![k + 1] = l1]
             /\ l' = IF l1 > 0 /\ Variant # "nodec" THEN l1 - 1 ELSE l1
  /\ i' = i + 1
  /\ UNCHANGED t
Done == i = Len(t) /\ UNCHANGED vars
Next == Step \/ Done
Spec == Init /\ [][Next]_vars

(* the skipped bytes agree and are inside the text whenever a comparison starts *)
Carried ==
  (i < Len(t) /\ InvSA[i + 1] # 0) =>
    LET j == SA[InvSA[i + 1]] IN
    /\ i + l <= Len(t) /\ j + l <= Len(t)
    /\ SubSeq(t, i + 1, i + l) = SubSeq(t, j + 1, j + l)
Result == i = Len(t) => IsLCP(t, SA, lcp)
Inv == Carried /\ Result
=============================================================================
