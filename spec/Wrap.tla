-------------------------------- MODULE Wrap --------------------------------
(***************************************************************************)
(* Envelope specification of lz.WrappedParser (wrap.go): property C08.     *)
(*                                                                         *)
(* Abstract state (a record):                                              *)
(*   src      every byte the reader has handed out so far (in call order,  *)
(*            including bytes that came together with an error)            *)
(*   del      number of bytes delivered: covered by the blocks returned    *)
(*            (or skipped with a nil block) so far                         *)
(*   done     TRUE once Parse has returned io.EOF                          *)
(*   lasterr  error class of the most recent reader call that has not been *)
(*            returned to the caller yet ("" if none): an implementation   *)
(*            may deliver the data first and report the error later, but   *)
(*            it may report each reader error only once                    *)
(*   c        configuration as the inner parser reports it (ParserSM)      *)
(*                                                                         *)
(* One action per call of WrappedParser.Parse (event "wparse", or          *)
(* "wparsenil" for a nil block) and WrappedParser.Reset ("wreset").  The   *)
(* event carries the reader calls that happened inside the call            *)
(* (reads = <<lenp, k, err, bytes>>...), the results and the block.        *)
(* How the loop fills and shrinks the buffer is left open; what the        *)
(* property fixes is:                                                      *)
(*   roundtrip            a returned block expands, on top of everything   *)
(*                        delivered so far, to exactly the next n bytes    *)
(*                        the reader produced                              *)
(*   progress             a nil error comes with n >= 1                    *)
(*   err_after_delivery   an error (EOF or the reader's) is returned only  *)
(*                        when every byte read so far has been delivered   *)
(*   err_is_readers       the error returned is the one the reader gave    *)
(*                        in its most recent call                          *)
(*   eof_sticky           after io.EOF, and while the reader keeps saying  *)
(*                        EOF, the result stays (0, io.EOF)                *)
(* "no loss or duplication once the reader recovers" is the round-trip     *)
(* equation over src, which contains the bytes of failed calls as well.    *)
(* Chunking independence is a two-run property (TwoRun.tla).               *)
(***************************************************************************)
EXTENDS ParserSM

WInit(c) == [src |-> <<>>, del |-> 0, done |-> FALSE, lasterr |-> "", c |-> c]

ReadErrs == {"eof", "reader", "reader2"}

(* the reader log of one call is well formed (harness sanity, not a        *)
(* property of lz): k = number of bytes, k <= len(p)                        *)
ReadsOk(reads) ==
  \A i \in 1..Len(reads) :
    /\ reads[i][2] = Len(reads[i][4])
    /\ reads[i][2] <= reads[i][1]
    /\ reads[i][3] \in ReadErrs \cup {""}

LastErr(ws, reads) == IF reads = <<>> THEN ws.lasterr ELSE reads[Len(reads)][3]

AllEof(reads) == \A i \in 1..Len(reads) : reads[i][2] = 0 /\ reads[i][3] = "eof"

WRoundTrip(src, del, e) ==
  LET h == SubSeq(src, 1, del) IN
  /\ del + e.n <= Len(src)
  /\ ExpandDefined(h, e.seqs, e.lits)
  /\ Expand(h, e.seqs, e.lits) = SubSeq(src, 1, del + e.n)

WRules(ws, e) ==
  LET c == ws.c IN
  CASE e.op \in {"wparse", "wparsenil"} ->
      LET src == ws.src \o Concat4(e.reads)
          le  == LastErr(ws, e.reads)
      IN { <<"C08.reader_log", ReadsOk(e.reads)>>,
           <<"C08.eof_sticky", (ws.done /\ AllEof(e.reads)) => (e.err = "eof" /\ e.n = 0)>> }
         \cup
         (IF e.err = ""
          THEN { <<"C08.progress", e.n >= 1>>,
                 <<"C08.n_bound", e.n <= Min(c.Blk, Len(src) - ws.del)>> }
               \cup (IF e.op = "wparsenil" THEN {}
                     ELSE LET okshape == /\ e.n >= 1
                                         /\ \A i \in 1..Len(e.seqs) : IsSeqRec(e.seqs[i])
                                         /\ LitSum(e.seqs) <= Len(e.lits)
                                         /\ BlockLen(e.seqs, e.lits) = e.n
                          IN { <<"C08.block_shape", okshape>> }
                             \cup (IF okshape THEN { <<"C08.roundtrip", WRoundTrip(src, ws.del, e)>> }
                                   ELSE {}))
          ELSE { <<"C08.err_n", e.n = 0>>,
                 <<"C08.err_class", e.err \in ReadErrs \/ (e.err = "full" /\ c.S >= c.B)>>,
                 <<"C16.err_documented", e.err \in ReadErrs \cup {"full"}>>,
                 <<"C08.err_after_delivery", e.err \in ReadErrs => ws.del = Len(src)>>,
                 <<"C08.eof_when_done", e.err = "eof" => (ws.del = Len(src) /\ (le = "eof" \/ ws.done))>>,
                 (* a reader error is reported when the reader gave it in this   *)
                 (* call, or earlier and it has not been reported yet: a stale   *)
                 (* error must not be repeated without asking the reader again   *)
                 <<"C08.err_is_readers", e.err \in {"reader", "reader2"} => e.err = le>> })
    [] e.op = "wreset" -> {}
    (* the consumer loop did not reach io.EOF although it made more calls    *)
    (* than bytes + reader faults exist: the wrapper stopped making progress *)
    [] e.op = "stalled" -> { <<"C08.completes", FALSE>> }
    [] e.op = "panic" -> { <<"C16.no_panic", FALSE>>, <<"C08.no_panic", FALSE>> }
    [] e.op = "timeout" -> { <<"C16.no_hang", FALSE>>, <<"C08.no_hang", FALSE>> }
    [] e.op = "livelock" -> { <<"C16.no_hang", FALSE>>, <<"C08.no_hang", FALSE>> }
    [] OTHER -> { <<"C00.unknown_op", FALSE>> }

WWhy(ws, e) == { r[1] : r \in { x \in WRules(ws, e) : ~x[2] } }

WEff(ws, e) ==
  CASE e.op \in {"wparse", "wparsenil"} ->
      [ws EXCEPT !.src = @ \o Concat4(e.reads),
                 !.del = IF e.err = "" THEN @ + e.n ELSE @,
                 !.done = @ \/ e.err = "eof",
                 !.lasterr = LET le == LastErr(ws, e.reads) IN IF e.err = le THEN "" ELSE le]
    [] e.op = "wreset" -> WInit(ws.c)
    [] OTHER -> ws

WStateOk(ws) == 0 <= ws.del /\ ws.del <= Len(ws.src)
=============================================================================
