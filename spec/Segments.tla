------------------------------ MODULE Segments ------------------------------
(***************************************************************************)
(* Implementation-shaped model of suffix.Segments / scanLCP                *)
(* (suffix/segments.go): a stack scan over the LCP table.  One TLC step    *)
(* per iteration of the inner loop.                                        *)
(*                                                                         *)
(*   stack := <<(n 0, j 0)>>                                               *)
(*   for j := 1; ; j++ {                                                   *)
(*     n := j < len ? min(lcp[j], maxLen) : -1;  lb := j-1                 *)
(*     for { top := stack.top                                              *)
(*       n > top.n  -> push (n, lb); next j                                *)
(*       n == top.n -> next j                                              *)
(*       if top.n >= minLen { emit (top.n, sa[top.j:j]) }                  *)
(*       lb = top.j;  pop;  if stack empty -> done } }                     *)
(*                                                                         *)
(* Variant selects the boundary rule: "carry" is the code (a new interval  *)
(* inherits the left boundary of the interval just closed), "pinned" is    *)
(* the defect that was repaired (lb := j-1 always; TLC refutes it on       *)
(* t = 0001 with minLen 0, maxLen 2).                                      *)
(*                                                                         *)
(* TLC explores the scan for every text over Alpha up to MaxN and every    *)
(* 0 <= minLen <= maxLen <= MaxLen and checks at the end the very rules    *)
(* that judge recorded executions (SegRules of SuffixDefs, pairwise form   *)
(* and interval form), plus stack invariants at every step.                *)
(***************************************************************************)
EXTENDS SuffixDefs, SequencesExt, Json

CONSTANTS Alpha, MaxN, MaxLen, Variant, EmitOps

VARIABLES t, minLen, maxLen,   \* inputs
          sa, lcp,             \* definitional suffix array and LCP table of t (tuples)
          j, n, lb, stack, out, pc

vars == <<t, minLen, maxLen, sa, lcp, j, n, lb, stack, out, pc>>

RECURSIVE SeqsUpTo(_, _)
SeqsUpTo(S, k) == IF k = 0 THEN {<<>>} ELSE SeqsUpTo(S, k - 1) \cup [1..k -> S]

TrueSA(x) == SortSeq([i \in 1..Len(x) |-> i - 1], LAMBDA a, b : SuffixLess(x, a, b))
TrueLCP(x, p) == [i \in 1..Len(p) |-> IF i = 1 THEN 0 ELSE SLcp(x, p[i - 1], p[i])]

InvOf(p) == [x \in 1..Len(p) |-> (CHOOSE i \in 1..Len(p) : p[i] = x - 1) - 1]

LcpAt(jj) == IF jj < Len(lcp) THEN SMin(lcp[jj + 1], maxLen) ELSE -1     \* Go index jj

Init ==
  /\ t \in SeqsUpTo(Alpha, MaxN)
  /\ minLen \in 0..MaxLen /\ maxLen \in 0..MaxLen /\ minLen <= maxLen
  /\ sa = TrueSA(t) /\ lcp = TrueLCP(t, sa)
  /\ out = <<>>
  /\ IF Len(t) = 0                      \* Segments returns at once for the empty text
     THEN /\ pc = "done" /\ j = 0 /\ n = 0 /\ lb = 0 /\ stack = <<>>
     ELSE /\ pc = "inner" /\ j = 1 /\ n = LcpAt(1) /\ lb = 0
          /\ stack = <<[n |-> 0, j |-> 0]>>

NextJ ==   \* continue scan: j++, load n, lb := j-1
  /\ j' = j + 1
  /\ n' = LcpAt(j + 1)
  /\ lb' = j
  /\ pc' = "inner"

Inner ==
  /\ pc = "inner"
  /\ UNCHANGED <<t, minLen, maxLen, sa, lcp>>
  /\ LET top == stack[Len(stack)] IN
     IF n > top.n
     THEN /\ stack' = Append(stack, [n |-> n, j |-> lb])
          /\ NextJ /\ UNCHANGED out
     ELSE IF n = top.n
     THEN /\ NextJ /\ UNCHANGED <<stack, out>>
     ELSE /\ out' = IF top.n >= minLen
                    THEN Append(out, <<top.n, SubSeq(sa, top.j + 1, j)>>)     \* sa[top.j:j]
                    ELSE out
          /\ lb' = IF Variant = "carry" THEN top.j ELSE lb
          /\ stack' = SubSeq(stack, 1, Len(stack) - 1)
          /\ pc' = IF Len(stack) = 1 THEN "done" ELSE "inner"
          /\ UNCHANGED <<j, n>>

Next == Inner
Spec == Init /\ [][Next]_vars /\ WF_vars(Next)

(* ---- properties ---- *)
StackInv ==
  pc = "inner" =>
    /\ Len(stack) >= 1
    /\ stack[1] = [n |-> 0, j |-> 0]
    /\ \A i \in 2..Len(stack) : stack[i].n > stack[i - 1].n /\ stack[i].j >= stack[i - 1].j
    /\ \A i \in 1..Len(stack) : stack[i].j <= lb /\ lb < j
    /\ j <= Len(t)

Final ==
  pc = "done" =>
    /\ \A r \in SegRules(t, sa, InvOf(sa), lcp, minLen, maxLen, out, TRUE) : r[2]
    /\ \A r \in SegRules(t, sa, InvOf(sa), lcp, minLen, maxLen, out, FALSE) : r[2]

Terminates == <>(pc = "done")

Emit == (EmitOps /\ pc = "done") =>
          PrintT(<<"VERIF_OPS", ToJson(<<[op |-> "segments", t |-> t, minlen |-> minLen, maxlen |-> maxLen]>>)>>)
Inv == StackInv /\ Final /\ Emit
=============================================================================
