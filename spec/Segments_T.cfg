SPECIFICATION Spec
CONSTANTS
  Alpha = {0, 1, 2}
  MaxN = 6
  MaxLen = 4
  Variant = "carry"
  EmitOps = TRUE
INVARIANT Inv
PROPERTY Terminates
CHECK_DEADLOCK FALSE
