--------------------------- MODULE DecoderRetain ---------------------------
(***************************************************************************)
(* Integer abstraction of lz.DecoderBuffer (lengths only) for an UNBOUNDED *)
(* argument about the retention / no-loss clauses of C04: for every        *)
(* WindowSize < BufferSize, every write size and every read position the   *)
(* shrink policy                                                           *)
(*     delta = min(max(len - WindowSize, 0), R)                            *)
(* keeps min(WindowSize, bytes written) bytes, never discards unread       *)
(* bytes, and never exceeds BufferSize.  IndInv is inductive; Apalache     *)
(* checks  IndInit => IndInv  (length 0) and  IndInv /\ Next => IndInv'    *)
(* (length 1) for all integers - no bound on sizes:                        *)
(*   apalache-mc check --init=IndInit --inv=IndInv --length=1              *)
(* The byte-level model (DecoderBufImpl / DecoderBufMC) is checked by TLC  *)
(* for small sizes; this module removes the size bound for the arithmetic. *)
(***************************************************************************)
EXTENDS Integers

CONSTANTS
  \* @type: Int;
  W,
  \* @type: Int;
  B

VARIABLES
  \* @type: Int;
  len,      \* retained bytes (len(Data))
  \* @type: Int;
  r,        \* read position inside the retained bytes (R)
  \* @type: Int;
  total     \* bytes written since Init/Reset (Off)

Min(a, b) == IF a < b THEN a ELSE b
Max(a, b) == IF a > b THEN a ELSE b

ConstInit == W \in Int /\ B \in Int /\ W >= 0 /\ B > W

Init == len = 0 /\ r = 0 /\ total = 0

(* a write of g bytes (Write, WriteByte, a sequence of WriteBlock): all or nothing *)
Delta == Min(Max(len - W, 0), r)

Write(g) ==
  /\ g >= 0
  /\ \/ /\ len + g <= B                                  \* fits
        /\ len' = len + g /\ total' = total + g /\ r' = r
     \/ /\ len + g > B /\ len - Delta + g > B             \* ErrFullBuffer: the shrink has happened, nothing is appended
        /\ len' = len - Delta /\ r' = r - Delta /\ total' = total
     \/ /\ len + g > B /\ len - Delta + g <= B            \* fits after discarding read bytes outside the window
        /\ len' = len - Delta + g /\ r' = r - Delta /\ total' = total + g

Read(k) ==
  /\ k >= 0 /\ k <= len - r
  /\ r' = r + k
  /\ len' = len /\ total' = total

Reset == len' = 0 /\ r' = 0 /\ total' = 0

Next == (\E g \in Int : Write(g)) \/ (\E k \in Int : Read(k)) \/ Reset

IndInv ==
  /\ W >= 0 /\ B > W
  /\ 0 <= r /\ r <= len
  /\ len <= B
  /\ len <= total
  /\ len >= Min(W, total)          \* the window is retained (C04)
  \* 0 <= r after every shrink: only bytes in front of the read position are
  \* discarded, i.e. unread bytes are never lost (C04)

IndInit == len \in Int /\ r \in Int /\ total \in Int /\ IndInv
=============================================================================
